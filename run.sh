#!/bin/bash
# usage: run.sh <ID> <quick|thorough>   |   run.sh replay <path>
export GOFLAGS=-mod=mod GOPROXY=off GOSUMDB=off GOTOOLCHAIN=local PATH=/opt/veriftools/go1.26.8/bin:$PATH
export VERIF_DIR="$(cd "$(dirname "$0")" && pwd)"
cd "$VERIF_DIR" || exit 2
if [ "$1" = "replay" ]; then
  path="$2"
  id=$(basename "$path" | cut -d- -f1)
  export VERIF_REPLAY="$(realpath "$path")"
  tier="${VERIF_TIER:-quick}"
else
  id="$1"; tier="${2:-quick}"
fi
pkg=./checks/$(echo "$id" | tr 'A-Z' 'a-z')
mkdir -p bin evidence replays
# VERIF_REPO=<dir>: check a scratch copy of the repository instead of /repo (used to try seeded
# changes without touching /repo); evidence then goes to a scratch directory, never to evidence/
MODFLAG=""
out="bin/$id.test"
export VERIF_RACE_BIN="$VERIF_DIR/bin/race.test"
if [ -n "$VERIF_REPO" ]; then
  tag=$(echo "$VERIF_REPO" | md5sum | cut -c1-8)
  sed "s|=> /repo|=> $VERIF_REPO|" go.mod > "bin/alt-$tag.mod"; cp go.sum "bin/alt-$tag.sum"
  MODFLAG="-modfile=bin/alt-$tag.mod"
  out="bin/alt-$tag-$id.test"
  export VERIF_RACE_BIN="$VERIF_DIR/bin/alt-$tag-race.test"
  export VERIF_EVIDENCE_DIR="$VERIF_DIR/bin/alt-$tag-evidence"; mkdir -p "$VERIF_EVIDENCE_DIR"
fi
case "$id" in C07|C20) go test $MODFLAG -race -tags verif -vet=off -c -o "$VERIF_RACE_BIN" ./checks/race >bin/race.build.log 2>&1 || { echo "ENGINE-ERROR race build failed:"; cat bin/race.build.log; exit 2; } ;; esac
case "$id" in C14|C16) go build -o bin/fakessh ./cmd/fakessh || { echo "ENGINE-ERROR building fakessh"; exit 2; } ;; esac
go test $MODFLAG -c -tags verif -vet=off -o "$out" "$pkg" >bin/$id.build.log 2>&1 || { echo "ENGINE-ERROR build failed:"; cat bin/$id.build.log; exit 2; }
VERIF_TIER="$tier" exec "./$out" -test.run '^TestCheck$' -test.timeout=0

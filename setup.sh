#!/bin/bash
# builds every check binary once (warms the Go build cache); offline.
export GOFLAGS=-mod=mod GOPROXY=off GOSUMDB=off GOTOOLCHAIN=local PATH=/opt/veriftools/go1.26.8/bin:$PATH
cd "$(dirname "$0")" || exit 2
mkdir -p bin evidence replays
rc=0
go build -o bin/fakessh ./cmd/fakessh || rc=2
go test -race -tags verif -vet=off -c -o bin/race.test ./checks/race || rc=2
for d in checks/c*/; do
  id=$(basename "$d" | tr 'a-z' 'A-Z')
  go test -c -tags verif -vet=off -o "bin/$id.test" "./$d" || rc=2
done
exit $rc

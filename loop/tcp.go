package loop

import "net"

// TCPServer accepts connections on 127.0.0.1 and hands each to Handle.
type TCPServer struct {
	L      net.Listener
	Port   int
	Handle func(c net.Conn)
	*Freezer
}

// NewTCPServer starts a server.
func NewTCPServer(h func(c net.Conn)) (*TCPServer, error) {
	l, err := net.Listen("tcp", "127.0.0.1:0")
	if err != nil {
		return nil, err
	}
	s := &TCPServer{L: l, Port: l.Addr().(*net.TCPAddr).Port, Handle: h, Freezer: newFreezer()}
	go func() {
		for {
			c, err := l.Accept()
			if err != nil {
				return
			}
			c = s.wrap(c)
			go func() { s.Handle(c); _ = c.Close() }()
		}
	}()
	return s, nil
}

// Close stops the server.
func (s *TCPServer) Close() { _ = s.L.Close(); s.Thaw() }

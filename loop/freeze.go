package loop

import (
	"io"
	"net"
	"sync"
	"sync/atomic"
)

// Freezer makes the server side of connections go silent: once frozen the server neither sees what the
// client sends nor sends anything itself, and the connection is not closed either -- a peer (or the path
// to it) that went away without a reset. Thaw (called by the servers' Close) ends the state.
type Freezer struct {
	frozen atomic.Bool
	once   sync.Once
	thaw   chan struct{}
}

func newFreezer() *Freezer { return &Freezer{thaw: make(chan struct{})} }

// Freeze makes every wrapped connection silent from now on.
func (f *Freezer) Freeze() { f.frozen.Store(true) }

// Thaw releases the goroutines parked in frozen connections (they see the connection as closed).
func (f *Freezer) Thaw() { f.once.Do(func() { close(f.thaw) }) }

func (f *Freezer) wrap(c net.Conn) net.Conn { return &freezeConn{Conn: c, f: f} }

type freezeConn struct {
	net.Conn
	f *Freezer
}

func (c *freezeConn) Read(b []byte) (int, error) {
	n, err := c.Conn.Read(b)
	if c.f.frozen.Load() {
		<-c.f.thaw
		return 0, io.EOF
	}
	return n, err
}

func (c *freezeConn) Write(b []byte) (int, error) {
	if c.f.frozen.Load() {
		<-c.f.thaw
		return 0, io.ErrClosedPipe
	}
	return c.Conn.Write(b)
}

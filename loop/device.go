package loop

import (
	"io"
	"sync"
	"time"
)

// Reactor is the part of dev.Device the rigs need.
type Reactor interface {
	Connect() []byte
	React(in []byte) []byte
}

// ServeDevice runs a causal device model over a byte stream: it writes the connect output, then
// reacts to everything it reads. All bytes in both directions are recorded.
type ServeDevice struct {
	Mu   sync.Mutex
	Got  []byte
	Sent []byte
}

// Run serves d on ch until EOF.
func (s *ServeDevice) Run(d Reactor, ch io.ReadWriter) {
	out := d.Connect()
	s.Mu.Lock()
	s.Sent = append(s.Sent, out...)
	s.Mu.Unlock()
	_, _ = ch.Write(out)
	buf := make([]byte, 4096)
	for {
		n, err := ch.Read(buf)
		if n > 0 {
			s.Mu.Lock()
			s.Got = append(s.Got, buf[:n]...)
			o := d.React(buf[:n])
			s.Sent = append(s.Sent, o...)
			s.Mu.Unlock()
			if len(o) > 0 {
				if _, werr := ch.Write(o); werr != nil {
					return
				}
			}
		}
		if err != nil {
			return
		}
	}
}

// WaitFor polls f until it is true or the timeout expires.
func WaitFor(timeout time.Duration, f func() bool) bool {
	dl := time.Now().Add(timeout)
	for time.Now().Before(dl) {
		if f() {
			return true
		}
		time.Sleep(2 * time.Millisecond)
	}
	return f()
}

// Package loop holds the real-OS loopback rigs (E-LOOP): an in-process SSH server, a TCP server for
// telnet and helpers for the stand-in ssh binary.
package loop

import (
	"crypto/ecdsa"
	"crypto/ed25519"
	"crypto/elliptic"
	"crypto/rand"
	"encoding/pem"
	"fmt"
	"io"
	"net"
	"os"
	"path/filepath"
	"sync"

	"golang.org/x/crypto/ssh"
	"golang.org/x/crypto/ssh/knownhosts"
)

// AuthLog records what the server's auth callbacks saw.
type AuthLog struct {
	mu        sync.Mutex
	Users     []string
	Passwords []string
	KeyFPs    []string
	Conns     int
	Sessions  int
	Requests  []string // channel requests seen (pty-req, shell, subsystem:netconf, ...)
}

func (a *AuthLog) add(f func()) {
	a.mu.Lock()
	defer a.mu.Unlock()
	f()
}

// Snapshot returns a copy.
func (a *AuthLog) Snapshot() AuthLog {
	a.mu.Lock()
	defer a.mu.Unlock()
	return AuthLog{Users: append([]string{}, a.Users...), Passwords: append([]string{}, a.Passwords...), KeyFPs: append([]string{}, a.KeyFPs...),
		Conns: a.Conns, Sessions: a.Sessions, Requests: append([]string{}, a.Requests...)}
}

// Handler serves one session channel (after shell / subsystem was requested).
type Handler func(kind string, ch io.ReadWriteCloser)

// SSHServer is an in-process SSH server on 127.0.0.1.
type SSHServer struct {
	L        net.Listener
	Port     int
	HostKey  ssh.Signer
	Log      *AuthLog
	Password string        // accepted password ("" = password auth refused)
	AuthKey  ssh.PublicKey // accepted public key (nil = refused)
	Handle   Handler
	wg       sync.WaitGroup
	closed   chan struct{}
	*Freezer
}

// NewSSHServer starts a server with a fresh ed25519 host key.
func NewSSHServer(password string, authKey ssh.PublicKey, h Handler) (*SSHServer, error) {
	_, priv, err := ed25519.GenerateKey(rand.Reader)
	if err != nil {
		return nil, err
	}
	signer, err := ssh.NewSignerFromKey(priv)
	if err != nil {
		return nil, err
	}
	l, err := net.Listen("tcp", "127.0.0.1:0")
	if err != nil {
		return nil, err
	}
	s := &SSHServer{L: l, Port: l.Addr().(*net.TCPAddr).Port, HostKey: signer, Log: &AuthLog{}, Password: password, AuthKey: authKey, Handle: h, closed: make(chan struct{}), Freezer: newFreezer()}
	cfg := &ssh.ServerConfig{
		PasswordCallback: func(c ssh.ConnMetadata, pw []byte) (*ssh.Permissions, error) {
			s.Log.add(func() {
				s.Log.Users = append(s.Log.Users, c.User())
				s.Log.Passwords = append(s.Log.Passwords, string(pw))
			})
			if s.Password != "" && string(pw) == s.Password {
				return nil, nil
			}
			return nil, fmt.Errorf("password rejected")
		},
		PublicKeyCallback: func(c ssh.ConnMetadata, k ssh.PublicKey) (*ssh.Permissions, error) {
			s.Log.add(func() {
				s.Log.Users = append(s.Log.Users, c.User())
				s.Log.KeyFPs = append(s.Log.KeyFPs, ssh.FingerprintSHA256(k))
			})
			if s.AuthKey != nil && string(k.Marshal()) == string(s.AuthKey.Marshal()) {
				return nil, nil
			}
			return nil, fmt.Errorf("key rejected")
		},
	}
	cfg.AddHostKey(signer)
	go func() {
		for {
			c, err := l.Accept()
			if err != nil {
				return
			}
			s.Log.add(func() { s.Log.Conns++ })
			s.wg.Add(1)
			go func() {
				defer s.wg.Done()
				s.serve(c, cfg)
			}()
		}
	}()
	return s, nil
}

func (s *SSHServer) serve(c net.Conn, cfg *ssh.ServerConfig) {
	c = s.wrap(c)
	defer c.Close()
	conn, chans, reqs, err := ssh.NewServerConn(c, cfg)
	if err != nil {
		return
	}
	defer conn.Close()
	go ssh.DiscardRequests(reqs)
	for nc := range chans {
		if nc.ChannelType() != "session" {
			_ = nc.Reject(ssh.UnknownChannelType, "no")
			continue
		}
		ch, creqs, err := nc.Accept()
		if err != nil {
			return
		}
		s.Log.add(func() { s.Log.Sessions++ })
		go func() {
			for r := range creqs {
				name := r.Type
				if r.Type == "subsystem" && len(r.Payload) > 4 {
					name = "subsystem:" + string(r.Payload[4:])
				}
				s.Log.add(func() { s.Log.Requests = append(s.Log.Requests, name) })
				switch r.Type {
				case "pty-req", "env", "window-change":
					_ = r.Reply(true, nil)
				case "shell":
					_ = r.Reply(true, nil)
					go func() { s.Handle("shell", ch); _ = ch.Close() }()
				case "subsystem":
					_ = r.Reply(true, nil)
					k := name
					go func() { s.Handle(k, ch); _ = ch.Close() }()
				default:
					_ = r.Reply(false, nil)
				}
			}
		}()
	}
}

// Close stops the server.
func (s *SSHServer) Close() {
	s.Thaw()
	_ = s.L.Close()
}

// KnownHostsLine returns the known_hosts line for this server's key (or for another key).
func (s *SSHServer) KnownHostsLine(key ssh.PublicKey) string {
	return knownhosts.Line([]string{fmt.Sprintf("[127.0.0.1]:%d", s.Port)}, key)
}

// NewKeyPair writes a fresh ed25519 private key (OpenSSH format, 0600) into dir and returns its
// path and public key.
func NewKeyPair(dir, name string) (string, ssh.PublicKey, error) {
	pub, priv, err := ed25519.GenerateKey(rand.Reader)
	if err != nil {
		return "", nil, err
	}
	blk, err := ssh.MarshalPrivateKey(priv, "verif")
	if err != nil {
		return "", nil, err
	}
	p := filepath.Join(dir, name)
	if err := os.WriteFile(p, pem.EncodeToMemory(blk), 0o600); err != nil {
		return "", nil, err
	}
	sp, err := ssh.NewPublicKey(pub)
	return p, sp, err
}

// NewECDSAPublicKey returns a fresh public key of another algorithm (ecdsa-sha2-nistp256) than the
// servers' ed25519 host keys.
func NewECDSAPublicKey() (ssh.PublicKey, error) {
	k, err := ecdsa.GenerateKey(elliptic.P256(), rand.Reader)
	if err != nil {
		return nil, err
	}
	return ssh.NewPublicKey(&k.PublicKey)
}

// fakessh is the stand-in for the ssh binary used by the system transport checks: it records its
// argument list and environment, switches its terminal to raw mode and then behaves as the peer
// described by FAKESSH_MODE.
//
//	FAKESSH_LOG   file to write argv (one per line) to
//	FAKESSH_MODE  cli    : a tiny CLI device (prompt "router#", command "show x")
//	              echo   : READY marker, then echo every byte back
//	              source : READY marker, then write FAKESSH_PAYLOAD_FILE in FAKESSH_SCRIPT chunks, then sleep
//	              sink   : READY marker, then copy stdin to FAKESSH_OUT until EOF
package main

import (
	"bufio"
	"fmt"
	"os"
	"strings"
	"time"

	"golang.org/x/sys/unix"
)

func raw() {
	t, err := unix.IoctlGetTermios(0, unix.TCGETS)
	if err != nil {
		return
	}
	t.Iflag &^= unix.IGNBRK | unix.BRKINT | unix.PARMRK | unix.ISTRIP | unix.INLCR | unix.IGNCR | unix.ICRNL | unix.IXON
	t.Oflag &^= unix.OPOST
	t.Lflag &^= unix.ECHO | unix.ECHONL | unix.ICANON | unix.ISIG | unix.IEXTEN
	t.Cflag &^= unix.CSIZE | unix.PARENB
	t.Cflag |= unix.CS8
	t.Cc[unix.VMIN] = 1
	t.Cc[unix.VTIME] = 0
	_ = unix.IoctlSetTermios(0, unix.TCSETS, t)
}

func main() {
	if lf := os.Getenv("FAKESSH_LOG"); lf != "" {
		_ = os.WriteFile(lf, []byte(strings.Join(os.Args[1:], "\n")+"\n"), 0o600)
	}
	raw()
	switch os.Getenv("FAKESSH_MODE") {
	case "echo":
		fmt.Print("READY\n")
		buf := make([]byte, 65536)
		for {
			n, err := os.Stdin.Read(buf)
			if n > 0 {
				_, _ = os.Stdout.Write(buf[:n])
			}
			if err != nil {
				return
			}
		}
	case "source":
		b, _ := os.ReadFile(os.Getenv("FAKESSH_PAYLOAD_FILE"))
		fmt.Print("READY\n")
		switch os.Getenv("FAKESSH_SCRIPT") {
		case "halves":
			_, _ = os.Stdout.Write(b[:len(b)/2])
			time.Sleep(30 * time.Millisecond)
			_, _ = os.Stdout.Write(b[len(b)/2:])
		case "bytes":
			for i := range b {
				_, _ = os.Stdout.Write(b[i : i+1])
			}
		case "pause":
			_, _ = os.Stdout.Write(b[:1])
			time.Sleep(100 * time.Millisecond)
			_, _ = os.Stdout.Write(b[1:])
		default:
			_, _ = os.Stdout.Write(b)
		}
		if os.Getenv("FAKESSH_EXIT") == "1" {
			time.Sleep(50 * time.Millisecond)
			return
		}
		time.Sleep(time.Hour)
	case "sink":
		out, _ := os.Create(os.Getenv("FAKESSH_OUT"))
		fmt.Print("READY\n")
		buf := make([]byte, 65536)
		for {
			n, err := os.Stdin.Read(buf)
			if n > 0 {
				_, _ = out.Write(buf[:n])
				_ = out.Sync()
			}
			if err != nil {
				return
			}
		}
	default: // cli
		w := bufio.NewWriter(os.Stdout)
		fmt.Fprint(w, "router#")
		w.Flush()
		var line []byte
		b := make([]byte, 1)
		for {
			n, err := os.Stdin.Read(b)
			if n == 1 {
				if b[0] == '\n' {
					fmt.Fprint(w, "\n")
					switch string(line) {
					case "show x":
						fmt.Fprint(w, "x out\n")
					case "":
					default:
						fmt.Fprint(w, "% Unknown command\n")
					}
					fmt.Fprint(w, "router#")
					line = line[:0]
				} else {
					line = append(line, b[0])
					w.WriteByte(b[0])
				}
				w.Flush()
			}
			if err != nil {
				return
			}
		}
	}
}

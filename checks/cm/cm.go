// Package cm holds helpers shared by the checks: driver construction over the fake transport,
// reference normalisation of device output, small utilities.
package cm

import (
	"errors"
	"fmt"
	"strings"
	"time"

	"github.com/scrapli/scrapligo/driver/generic"
	"github.com/scrapli/scrapligo/driver/network"
	"github.com/scrapli/scrapligo/driver/options"
	"github.com/scrapli/scrapligo/transport"
	"github.com/scrapli/scrapligo/util"

	"verif/dev"
	"verif/sched"
)

// Ms is one virtual millisecond.
const Ms = time.Millisecond

// BaseOpts are the options every scenario driver gets.
func BaseOpts(tr transport.Implementation, readDelay, timeoutOps time.Duration, readSize int) []util.Option {
	o := []util.Option{
		options.WithCustomTransport(tr),
		options.WithReadDelay(readDelay),
		options.WithTimeoutOps(timeoutOps),
	}
	if readSize > 0 {
		o = append(o, options.WithTransportReadSize(readSize))
	}
	return o
}

// NewGeneric builds a generic driver over tr.
func NewGeneric(tr transport.Implementation, opts ...util.Option) (*generic.Driver, error) {
	return generic.NewDriver("dev", opts...)
}

// NewNetwork builds a network driver.
func NewNetwork(opts ...util.Option) (*network.Driver, error) {
	return network.NewDriver("dev", opts...)
}

// StripCSI removes the CSI escape sequences (ESC [ params final) the scenarios generate.
func StripCSI(s string) string {
	var sb strings.Builder
	for i := 0; i < len(s); i++ {
		if s[i] == 0x1b && i+1 < len(s) && s[i+1] == '[' {
			j := i + 2
			for j < len(s) && !(s[j] >= 0x40 && s[j] <= 0x7e) {
				j++
			}
			i = j
			continue
		}
		sb.WriteByte(s[i])
	}
	return sb.String()
}

// NormOutput is the reference normalisation of C01: carriage returns and complete escape
// sequences removed, trailing spaces per line trimmed, surrounding blank lines trimmed; when
// prompt != "" the prompt (right-trimmed) is kept as the last line.
func NormOutput(out, prompt string) string {
	s := strings.ReplaceAll(out, "\r", "")
	s = StripCSI(s)
	lines := strings.Split(s, "\n")
	for i := range lines {
		lines[i] = strings.TrimRight(lines[i], " ")
	}
	if prompt != "" {
		if len(lines) > 0 && lines[len(lines)-1] == "" {
			lines = lines[:len(lines)-1]
		}
		lines = append(lines, strings.TrimRight(prompt, " "))
	}
	return strings.Trim(strings.Join(lines, "\n"), "\n")
}

// ErrClass names the sentinel an error wraps.
func ErrClass(err error) string {
	switch {
	case err == nil:
		return "nil"
	case errors.Is(err, util.ErrTimeoutError):
		return "timeout"
	case errors.Is(err, util.ErrAuthError):
		return "auth"
	case errors.Is(err, util.ErrConnectionError):
		return "connection"
	case errors.Is(err, util.ErrPrivilegeError):
		return "privilege"
	case errors.Is(err, util.ErrNetconfError):
		return "netconf"
	case errors.Is(err, util.ErrOperationError):
		return "operation"
	case errors.Is(err, util.ErrBadOption):
		return "badoption"
	case errors.Is(err, util.ErrNoOp):
		return "noop"
	case errors.Is(err, dev.ErrEIO):
		return "eio"
	case errors.Is(err, dev.ErrWrite):
		return "writeerr"
	case errors.Is(err, dev.ErrClosed):
		return "closed"
	}
	return "other:" + err.Error()
}

// Cfg is the usual scheduler configuration for CLI sessions.
func Cfg(classes ...string) sched.Config {
	return sched.Config{Classes: classes, Tick: Ms, Horizon: 120 * time.Second, Grace: 5 * Ms, IdleEnvOnly: true}
}

// Q quotes for messages.
func Q(s string) string { return fmt.Sprintf("%q", s) }

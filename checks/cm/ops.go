package cm

import (
	"fmt"
	"regexp"
	"strings"
	"time"

	"github.com/scrapli/scrapligo/channel"
	"github.com/scrapli/scrapligo/driver/generic"
	"github.com/scrapli/scrapligo/driver/netconf"
	"github.com/scrapli/scrapligo/driver/network"
	"github.com/scrapli/scrapligo/driver/opoptions"
	"github.com/scrapli/scrapligo/driver/options"
	"github.com/scrapli/scrapligo/response"
	"github.com/scrapli/scrapligo/transport"
	"github.com/scrapli/scrapligo/util"

	"verif/dev"
	"verif/sched"
)

// Commands of the standard CLI device. NextCmd carries bytes ('%', '7') that occur nowhere else.
const (
	Cmd1    = "show alpha"
	Cmd2    = "show beta"
	NextCmd = "ping %7"
	Out1    = "alpha out\nsecond line"
	Out2    = "beta"
	OutNext = "pong 7%"
	Secret  = "s3cr3t-EN"
	User    = "admin"
	Pass    = "p4ss-W0RD"
)

// StdLevels is an IOS-XE like three level tree.
func StdLevels(auth bool) map[string]*network.PrivilegeLevel {
	return map[string]*network.PrivilegeLevel{
		"exec": {Name: "exec", Pattern: `(?im)^[\w.\-@/:]{1,63}>$`},
		"privilege-exec": {Name: "privilege-exec", Pattern: `(?im)^[\w.\-@/:]{1,63}#$`, PreviousPriv: "exec",
			Deescalate: "disable", Escalate: "enable", EscalateAuth: auth, EscalatePrompt: `(?im)^(?:enable\s){0,1}password:\s?$`},
		"configuration": {Name: "configuration", Pattern: `(?im)^[\w.\-@/:]{1,63}\([\w.\-@/:+]{0,32}\)#$`, PreviousPriv: "privilege-exec",
			Deescalate: "end", Escalate: "configure terminal"},
	}
}

// StdCLI builds the standard three-mode device. start is the initial mode; auth makes "enable"
// ask for the secret.
func StdCLI(start string, auth bool) *dev.CLIDevice {
	show := map[string]dev.Reply{Cmd1: {Out: Out1}, Cmd2: {Out: Out2}, NextCmd: {Out: OutNext}}
	mk := func(extra map[string]dev.Reply) func(*dev.CLIDevice, string) dev.Reply {
		m := map[string]dev.Reply{}
		for k, v := range show {
			m[k] = v
		}
		for k, v := range extra {
			m[k] = v
		}
		return dev.Table(m)
	}
	pw := "Password: "
	enable := dev.Reply{Next: "privilege-exec"}
	if auth {
		enable = dev.Reply{Next: "enable-pw", Raw: &pw}
	}
	d := dev.NewCLI(start,
		&dev.Mode{Name: "exec", Prompt: "router>", OnLine: mk(map[string]dev.Reply{"enable": enable})},
		&dev.Mode{Name: "enable-pw", Prompt: "Password: ", NoEcho: true, OnLine: func(_ *dev.CLIDevice, line string) dev.Reply {
			if line == Secret {
				return dev.Reply{Next: "privilege-exec"}
			}
			return dev.Reply{Out: "% Access denied", Next: "exec", Wrong: line != ""}
		}},
		&dev.Mode{Name: "privilege-exec", Prompt: "router#", OnLine: mk(map[string]dev.Reply{
			"disable": {Next: "exec"}, "configure terminal": {Out: "Enter configuration commands, one per line.", Next: "configuration"},
			"clear logging": {Raw: strp("Clear logging buffer [confirm]"), Next: "confirm"},
		})},
		&dev.Mode{Name: "confirm", Prompt: "", OnLine: func(_ *dev.CLIDevice, line string) dev.Reply {
			return dev.Reply{Next: "privilege-exec"}
		}},
		&dev.Mode{Name: "configuration", Prompt: "router(config)#", OnLine: func(_ *dev.CLIDevice, line string) dev.Reply {
			switch line {
			case "":
				return dev.Reply{}
			case "end":
				return dev.Reply{Next: "privilege-exec"}
			case "hostname x", "no shutdown":
				return dev.Reply{}
			}
			return dev.Reply{Out: "% Invalid input detected", Wrong: true}
		}},
	)
	return d
}

func strp(s string) *string { return &s }

// LoginCLI wraps StdCLI behind a telnet or ssh login front-end.
func LoginCLI(kind string) *dev.CLIDevice {
	d := StdCLI("privilege-exec", false)
	switch kind {
	case "telnet":
		d.Modes["login-user"] = &dev.Mode{Name: "login-user", Prompt: "Username: ", OnLine: func(_ *dev.CLIDevice, line string) dev.Reply {
			if line == "" {
				return dev.Reply{}
			}
			return dev.Reply{Next: "login-pass", Raw: strp("Password: ")}
		}}
		d.Modes["login-pass"] = &dev.Mode{Name: "login-pass", Prompt: "Password: ", NoEcho: true, OnLine: func(_ *dev.CLIDevice, line string) dev.Reply {
			if line == Pass {
				return dev.Reply{Out: "Welcome", Next: "privilege-exec"}
			}
			return dev.Reply{Out: "% Login invalid", Next: "login-user"}
		}}
		d.Cur = "login-user"
		d.Banner = "User Access Verification\n\n"
	case "ssh":
		d.Modes["login-pass"] = &dev.Mode{Name: "login-pass", Prompt: "admin@dev's password: ", NoEcho: true, OnLine: func(_ *dev.CLIDevice, line string) dev.Reply {
			if line == Pass {
				return dev.Reply{Out: "Last login: yesterday", Next: "privilege-exec"}
			}
			return dev.Reply{Out: "Permission denied, please try again.", Next: "login-pass"}
		}}
		d.Cur = "login-pass"
		d.Banner = "Warning: Permanently added 'dev' (ED25519) to the list of known hosts.\n"
	}
	return d
}

// OpCtx is what an operation runs against.
type OpCtx struct {
	E     *sched.Env
	Tr    *dev.FakeTransport
	CLI   *dev.CLIDevice
	NC    *dev.NCServer
	G     *generic.Driver
	N     *network.Driver
	D     *netconf.Driver
	RD    time.Duration
	TConn time.Duration
	// Begin is called by the operation immediately before the call under test.
	Begin func()
	// Closed reports Implementation.Close calls (for open operations)
}

// OpDef describes one blocking operation of the library.
type OpDef struct {
	Name     string
	Kind     string // cli | login-telnet | login-ssh | nc-open | nc
	Override bool   // accepts a per-operation timeout
	ErrClass string // class of the error a stall must produce
	// Setup builds device + driver and brings the session to the point just before the call;
	// it returns a non-nil error when that fails.
	Setup func(c *OpCtx) error
	// Call performs the operation under test (after c.Begin()), with the per-operation timeout
	// when override >= 0.
	Call func(c *OpCtx, override time.Duration) (result string, err error)
	// Want is the result of the complete operation ("" = not compared).
	Want string
	// Recovery: after a timeout the device catches up and NextCmd must return OutNext.
	Recovery bool
}

func tmo(override time.Duration) []util.Option {
	if override < 0 {
		return nil
	}
	return []util.Option{opoptions.WithTimeoutOps(override)}
}

func cliSetup(kind string, start string, auth, withSecret bool, desired string) func(c *OpCtx) error {
	return func(c *OpCtx) error {
		c.CLI = StdCLI(start, auth)
		c.Tr = dev.NewFake(c.E, c.CLI)
		opts := BaseOpts(c.Tr, c.RD, c.TConn, 0)
		var err error
		if kind == "network" {
			opts = append(opts, options.WithPrivilegeLevels(StdLevels(auth)), options.WithDefaultDesiredPriv(desired))
			if withSecret {
				opts = append(opts, options.WithAuthSecondary(Secret))
			}
			c.N, err = network.NewDriver("dev", opts...)
			if err != nil {
				return err
			}
			c.G = c.N.Driver
			if err = c.N.Open(); err != nil {
				return err
			}
		} else {
			c.G, err = generic.NewDriver("dev", opts...)
			if err != nil {
				return err
			}
			if err = c.G.Open(); err != nil {
				return err
			}
		}
		_, err = c.G.GetPrompt()
		return err
	}
}

func rres(r *response.Response, err error) (string, error) {
	if r == nil {
		return "", err
	}
	return r.Result, err
}

func mres(m *response.MultiResponse, err error) (string, error) {
	if m == nil {
		return "", err
	}
	var s []string
	for _, r := range m.Responses {
		s = append(s, r.Result)
	}
	return strings.Join(s, "|"), err
}

func nres(r *response.NetconfResponse, err error) (string, error) {
	if r == nil {
		return "", err
	}
	return r.Result, err
}

func ncSetup(version string, open bool) func(c *OpCtx) error {
	return func(c *OpCtx) error {
		caps := []string{dev.Cap10}
		if version == "1.1" {
			caps = append(caps, dev.Cap11)
		}
		c.NC = &dev.NCServer{Hello: dev.HelloDoc(caps, "12")}
		c.NC.Behave = func(i int, req dev.NCReq) (string, dev.NCBehavior) {
			if strings.Contains(req.Payload, "establish-subscription") {
				return `<rpc-reply xmlns="` + dev.NSBase + `" message-id="` + req.ID + `"><subscription-result xmlns="urn:x">notif-bis:ok</subscription-result><subscription-id xmlns="urn:x">77</subscription-id></rpc-reply>`, dev.ReplyNow
			}
			// <n> tells replies to different requests apart even when their message-ids collide
			return `<rpc-reply xmlns="` + dev.NSBase + `" message-id="` + req.ID + `"><ok/><n>` + fmt.Sprint(i) + `</n></rpc-reply>`, dev.ReplyNow
		}
		c.Tr = dev.NewFake(c.E, c.NC)
		c.NC.Out = c.Tr.Inject
		c.Tr.NextEnd = c.NC.NextEnd
		var err error
		c.D, err = netconf.NewDriver("dev", BaseOpts(c.Tr, c.RD, c.TConn, 0)...)
		if err != nil {
			return err
		}
		if open {
			return c.D.Open()
		}
		return nil
	}
}

func loginSetup(kind string) func(c *OpCtx) error {
	return func(c *OpCtx) error {
		c.CLI = LoginCLI(kind)
		c.Tr = dev.NewFake(c.E, c.CLI)
		var impl transport.Implementation
		if kind == "telnet" {
			impl = dev.FakeTelnet{FakeTransport: c.Tr}
		} else {
			impl = dev.FakeSSH{FakeTransport: c.Tr}
		}
		opts := BaseOpts(impl, c.RD, c.TConn, 0)
		opts = append(opts, options.WithAuthUsername(User), options.WithAuthPassword(Pass))
		var err error
		c.G, err = generic.NewDriver("dev", opts...)
		return err
	}
}

var okRe = regexp.MustCompile(`<ok/>`)

// Ops returns the table of blocking operations (C05/C06).
func Ops() []OpDef {
	gen := cliSetup("generic", "privilege-exec", false, false, "")
	var ops []OpDef
	add := func(o OpDef) { ops = append(ops, o) }
	add(OpDef{Name: "generic.GetPrompt", Kind: "cli", ErrClass: "timeout", Setup: gen, Recovery: true,
		Call: func(c *OpCtx, _ time.Duration) (string, error) { c.Begin(); return c.G.GetPrompt() }, Want: "router#"})
	add(OpDef{Name: "generic.SendCommand", Kind: "cli", Override: true, ErrClass: "timeout", Setup: gen, Recovery: true,
		Call: func(c *OpCtx, o time.Duration) (string, error) {
			c.Begin()
			return rres(c.G.SendCommand(Cmd1, tmo(o)...))
		}, Want: Out1})
	// interim prompt patterns switch SendInput to its read-until-any-prompt branch
	add(OpDef{Name: "generic.SendCommand-interim", Kind: "cli", Override: true, ErrClass: "timeout", Setup: gen, Recovery: true,
		Call: func(c *OpCtx, o time.Duration) (string, error) {
			c.Begin()
			opts := append(tmo(o), opoptions.WithInterimPromptPattern([]*regexp.Regexp{regexp.MustCompile(`(?m)^\.\.\.\s?$`)}))
			return rres(c.G.SendCommand(Cmd1, opts...))
		}, Want: Out1})
	// the other way of waiting for the echo: byte-exact matching
	add(OpDef{Name: "generic.SendCommand-exact", Kind: "cli", Override: true, ErrClass: "timeout", Setup: gen, Recovery: true,
		Call: func(c *OpCtx, o time.Duration) (string, error) {
			c.Begin()
			return rres(c.G.SendCommand(Cmd1, append(tmo(o), opoptions.WithExactMatchInput())...))
		}, Want: Out1})
	add(OpDef{Name: "generic.SendCommands", Kind: "cli", Override: true, ErrClass: "timeout", Setup: gen, Recovery: true,
		Call: func(c *OpCtx, o time.Duration) (string, error) {
			c.Begin()
			return mres(c.G.SendCommands([]string{Cmd1, Cmd2}, tmo(o)...))
		}, Want: Out1 + "|" + Out2})
	add(OpDef{Name: "generic.SendInteractive", Kind: "cli", Override: true, ErrClass: "timeout", Setup: gen,
		Call: func(c *OpCtx, o time.Duration) (string, error) {
			c.Begin()
			return rres(c.G.SendInteractive([]*channel.SendInteractiveEvent{
				{ChannelInput: "clear logging", ChannelResponse: `\[confirm\]`},
				{ChannelInput: "", ChannelResponse: ""},
			}, tmo(o)...))
		}})
	add(OpDef{Name: "generic.SendWithCallbacks-plain", Kind: "cli", Override: true, ErrClass: "timeout", Setup: gen, Recovery: true,
		Call: func(c *OpCtx, o time.Duration) (string, error) {
			cb, _ := generic.NewCallback(nil, opoptions.WithCallbackContains("router#"), opoptions.WithCallbackComplete())
			t := o
			if t < 0 {
				t = c.TConn
			}
			if t == 0 {
				t = util.MaxTimeout * time.Second
			}
			c.Begin()
			return rres(c.G.SendWithCallbacks(Cmd1, []*generic.Callback{cb}, t))
		}})
	add(OpDef{Name: "generic.SendWithCallbacks", Kind: "cli", Override: true, ErrClass: "timeout", Setup: gen,
		Call: func(c *OpCtx, o time.Duration) (string, error) {
			cb1, _ := generic.NewCallback(func(d *generic.Driver, _ string) error { return d.Channel.WriteAndReturn(nil, false) },
				opoptions.WithCallbackContains("[confirm]"), opoptions.WithCallbackOnce())
			cb2, _ := generic.NewCallback(nil, opoptions.WithCallbackContains("router#"), opoptions.WithCallbackComplete())
			t := o
			if t < 0 {
				t = c.TConn
			}
			if t == 0 {
				t = util.MaxTimeout * time.Second
			}
			c.Begin()
			return rres(c.G.SendWithCallbacks("clear logging", []*generic.Callback{cb1, cb2}, t))
		}})
	add(OpDef{Name: "network.AcquirePriv", Kind: "cli", ErrClass: "timeout", Recovery: true, Setup: cliSetup("network", "exec", false, false, "exec"),
		Call: func(c *OpCtx, _ time.Duration) (string, error) {
			c.Begin()
			return "", c.N.AcquirePriv("configuration")
		}})
	add(OpDef{Name: "network.AcquirePriv-auth", Kind: "cli", ErrClass: "timeout", Recovery: true, Setup: cliSetup("network", "exec", true, true, "exec"),
		Call: func(c *OpCtx, _ time.Duration) (string, error) {
			c.Begin()
			return "", c.N.AcquirePriv("privilege-exec")
		}})
	add(OpDef{Name: "network.SendCommand-implicit-priv", Kind: "cli", Override: true, ErrClass: "privilege|timeout", Recovery: true,
		Setup: cliSetup("network", "exec", false, false, "privilege-exec"),
		Call: func(c *OpCtx, o time.Duration) (string, error) {
			c.Begin()
			return rres(c.N.SendCommand(Cmd1, tmo(o)...))
		}, Want: Out1})
	add(OpDef{Name: "network.SendConfigs", Kind: "cli", Override: true, ErrClass: "timeout", Recovery: true, Setup: cliSetup("network", "privilege-exec", false, false, "privilege-exec"),
		Call: func(c *OpCtx, o time.Duration) (string, error) {
			c.Begin()
			return mres(c.N.SendConfigs([]string{"hostname x", "no shutdown"}, tmo(o)...))
		}, Want: "|"})
	// the same two with a warm privilege cache (a command ran before, so the driver believes it knows its
	// level): an interrupted hop must not leave that belief standing
	warm := func(setup func(c *OpCtx) error) func(c *OpCtx) error {
		return func(c *OpCtx) error {
			if err := setup(c); err != nil {
				return err
			}
			_, err := c.N.SendCommand(Cmd2)
			return err
		}
	}
	add(OpDef{Name: "network.AcquirePriv-warm", Kind: "cli", ErrClass: "timeout", Recovery: true, Setup: warm(cliSetup("network", "exec", false, false, "exec")),
		Call: func(c *OpCtx, _ time.Duration) (string, error) {
			c.Begin()
			return "", c.N.AcquirePriv("configuration")
		}})
	add(OpDef{Name: "network.SendConfigs-warm", Kind: "cli", Override: true, ErrClass: "timeout", Recovery: true,
		Setup: warm(cliSetup("network", "privilege-exec", false, false, "privilege-exec")),
		Call: func(c *OpCtx, o time.Duration) (string, error) {
			c.Begin()
			return mres(c.N.SendConfigs([]string{"hostname x", "no shutdown"}, tmo(o)...))
		}, Want: "|"})
	// Open without in-channel login: returns as soon as the read loop is started (C06 only: it reads nothing, so
	// there is nothing to stall)
	add(OpDef{Name: "generic.Open", Kind: "open-plain", ErrClass: "connection",
		Setup: func(c *OpCtx) error {
			c.CLI = StdCLI("privilege-exec", false)
			c.Tr = dev.NewFake(c.E, c.CLI)
			var err error
			c.G, err = generic.NewDriver("dev", BaseOpts(c.Tr, c.RD, c.TConn, 0)...)
			return err
		},
		Call: func(c *OpCtx, _ time.Duration) (string, error) { c.Begin(); return "", c.G.Open() }})
	add(OpDef{Name: "telnet.Open", Kind: "login-telnet", ErrClass: "timeout", Setup: loginSetup("telnet"),
		Call: func(c *OpCtx, _ time.Duration) (string, error) { c.Begin(); return "", c.G.Open() }})
	add(OpDef{Name: "ssh.Open", Kind: "login-ssh", ErrClass: "timeout", Setup: loginSetup("ssh"),
		Call: func(c *OpCtx, _ time.Duration) (string, error) { c.Begin(); return "", c.G.Open() }})
	for _, v := range []string{"1.0", "1.1"} {
		v := v
		add(OpDef{Name: "netconf.Open/" + v, Kind: "nc-open", ErrClass: "timeout", Setup: ncSetup(v, false),
			Call: func(c *OpCtx, _ time.Duration) (string, error) { c.Begin(); return "", c.D.Open() }})
		nc := ncSetup(v, true)
		type ncop struct {
			name string
			ov   bool
			f    func(d *netconf.Driver, o []util.Option) (*response.NetconfResponse, error)
		}
		list := []ncop{
			{"Get", true, func(d *netconf.Driver, o []util.Option) (*response.NetconfResponse, error) { return d.Get("", o...) }},
			{"GetConfig", true, func(d *netconf.Driver, o []util.Option) (*response.NetconfResponse, error) {
				return d.GetConfig("running", o...)
			}},
			{"EditConfig", false, func(d *netconf.Driver, _ []util.Option) (*response.NetconfResponse, error) {
				return d.EditConfig("candidate", "<config><a/></config>")
			}},
			{"CopyConfig", false, func(d *netconf.Driver, _ []util.Option) (*response.NetconfResponse, error) {
				return d.CopyConfig("running", "startup")
			}},
			{"DeleteConfig", false, func(d *netconf.Driver, _ []util.Option) (*response.NetconfResponse, error) {
				return d.DeleteConfig("startup")
			}},
			{"Lock", false, func(d *netconf.Driver, _ []util.Option) (*response.NetconfResponse, error) { return d.Lock("running") }},
			{"Unlock", false, func(d *netconf.Driver, _ []util.Option) (*response.NetconfResponse, error) {
				return d.Unlock("running")
			}},
			{"Validate", false, func(d *netconf.Driver, _ []util.Option) (*response.NetconfResponse, error) {
				return d.Validate("candidate")
			}},
			{"Commit", true, func(d *netconf.Driver, o []util.Option) (*response.NetconfResponse, error) { return d.Commit(o...) }},
			{"Discard", false, func(d *netconf.Driver, _ []util.Option) (*response.NetconfResponse, error) { return d.Discard() }},
			{"RPC", true, func(d *netconf.Driver, o []util.Option) (*response.NetconfResponse, error) {
				return d.RPC(append(o, opoptions.WithFilter("<x/>"))...)
			}},
			{"EstablishPeriodicSubscription", false, func(d *netconf.Driver, _ []util.Option) (*response.NetconfResponse, error) {
				return d.EstablishPeriodicSubscription("/a", 10)
			}},
		}
		for _, o := range list {
			o := o
			if v == "1.0" && o.name != "Get" && o.name != "EditConfig" && o.name != "EstablishPeriodicSubscription" {
				continue // the send path is shared; 1.0 is covered for three representatives
			}
			add(OpDef{Name: "netconf." + o.name + "/" + v, Kind: "nc", Override: o.ov, ErrClass: "timeout", Setup: nc, Recovery: true,
				Call: func(c *OpCtx, ov time.Duration) (string, error) {
					c.Begin()
					return nres(o.f(c.D, tmo(ov)))
				}})
		}
	}
	return ops
}

// FindOp looks an operation up by name.
func FindOp(name string) OpDef {
	for _, o := range Ops() {
		if o.Name == name {
			return o
		}
	}
	panic(fmt.Sprintf("unknown op %q", name))
}

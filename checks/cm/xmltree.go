package cm

import (
	"bytes"
	"encoding/xml"
	"fmt"
	"io"
	"sort"
	"strings"
)

// Node is a generic XML element.
type Node struct {
	Name     xml.Name
	Attrs    []xml.Attr // without xmlns declarations
	Children []*Node
	Text     string // concatenated character data directly inside this element
}

// ParseXML parses one document (an optional declaration and exactly one root element).
func ParseXML(b []byte) (*Node, error) {
	d := xml.NewDecoder(bytes.NewReader(b))
	d.Strict = true
	var stack []*Node
	var root *Node
	for {
		tok, err := d.Token()
		if err == io.EOF {
			break
		}
		if err != nil {
			return nil, err
		}
		switch t := tok.(type) {
		case xml.StartElement:
			n := &Node{Name: t.Name}
			for _, a := range t.Attr {
				if a.Name.Space == "xmlns" || (a.Name.Space == "" && a.Name.Local == "xmlns") {
					continue
				}
				n.Attrs = append(n.Attrs, a)
			}
			sort.Slice(n.Attrs, func(i, j int) bool {
				return n.Attrs[i].Name.Space+" "+n.Attrs[i].Name.Local < n.Attrs[j].Name.Space+" "+n.Attrs[j].Name.Local
			})
			if len(stack) == 0 {
				if root != nil {
					return nil, fmt.Errorf("more than one root element")
				}
				root = n
			} else {
				p := stack[len(stack)-1]
				p.Children = append(p.Children, n)
			}
			stack = append(stack, n)
		case xml.EndElement:
			stack = stack[:len(stack)-1]
		case xml.CharData:
			if len(stack) > 0 {
				stack[len(stack)-1].Text += string(t)
			} else if strings.TrimSpace(string(t)) != "" {
				return nil, fmt.Errorf("text outside the root element: %q", t)
			}
		}
	}
	if root == nil {
		return nil, fmt.Errorf("no root element")
	}
	if len(stack) != 0 {
		return nil, fmt.Errorf("unclosed element")
	}
	return root, nil
}

// DiffXML compares two trees; whitespace-only text is equal to no text, and text of elements that
// have child elements is compared trimmed. It returns "" when equal, else the first difference.
func DiffXML(a, b *Node, path string) string {
	p := path + "/" + a.Name.Local
	if a.Name != b.Name {
		return fmt.Sprintf("%s: element {%s}%s vs {%s}%s", path, a.Name.Space, a.Name.Local, b.Name.Space, b.Name.Local)
	}
	if len(a.Attrs) != len(b.Attrs) {
		return fmt.Sprintf("%s: attributes %v vs %v", p, a.Attrs, b.Attrs)
	}
	for i := range a.Attrs {
		if a.Attrs[i] != b.Attrs[i] {
			return fmt.Sprintf("%s: attribute %v vs %v", p, a.Attrs[i], b.Attrs[i])
		}
	}
	ta, tb := a.Text, b.Text
	if len(a.Children) > 0 || len(b.Children) > 0 || strings.TrimSpace(ta) == "" || strings.TrimSpace(tb) == "" {
		ta, tb = strings.TrimSpace(ta), strings.TrimSpace(tb)
	}
	if ta != tb {
		return fmt.Sprintf("%s: text %q vs %q", p, ta, tb)
	}
	if len(a.Children) != len(b.Children) {
		return fmt.Sprintf("%s: %d vs %d child elements", p, len(a.Children), len(b.Children))
	}
	for i := range a.Children {
		if d := DiffXML(a.Children[i], b.Children[i], p); d != "" {
			return d
		}
	}
	return ""
}

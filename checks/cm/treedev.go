package cm

import (
	"sort"

	"github.com/scrapli/scrapligo/driver/network"

	"verif/dev"
)

// TreeDev describes a device whose modes are the levels of a privilege tree.
type TreeDev struct {
	Levels   map[string]*network.PrivilegeLevel
	Prompts  map[string]string // canonical prompt per level
	PwPrompt map[string]string // password prompt text shown when escalating INTO the level (auth edges)
	Secret   string
	// Commands accepted in every mode with their output.
	Commands map[string]string
	// NoAsk: the device grants authenticated escalations without asking for the secret (no secret is set
	// on it, or the user is already authorised) although the driver's level definition says it would ask.
	NoAsk bool
}

// Build returns a CLI device for the tree, starting in start.
func (t *TreeDev) Build(start string) *dev.CLIDevice {
	var modes []*dev.Mode
	names := make([]string, 0, len(t.Levels))
	for n := range t.Levels {
		names = append(names, n)
	}
	sort.Strings(names)
	for _, name := range names {
		name := name
		lvl := t.Levels[name]
		modes = append(modes, &dev.Mode{Name: name, Prompt: t.Prompts[name], OnLine: func(d *dev.CLIDevice, line string) dev.Reply {
			if line == "" {
				return dev.Reply{}
			}
			if out, ok := t.Commands[line]; ok {
				return dev.Reply{Out: out}
			}
			// children reachable by their escalate command
			for _, cn := range names {
				c := t.Levels[cn]
				if c.PreviousPriv == name && c.Escalate != "" && line == c.Escalate {
					if c.EscalateAuth && !t.NoAsk {
						pw := t.PwPrompt[cn]
						return dev.Reply{Raw: &pw, Next: "pw:" + cn}
					}
					return dev.Reply{Next: cn}
				}
			}
			if lvl.Deescalate != "" && line == lvl.Deescalate && lvl.PreviousPriv != "" {
				return dev.Reply{Next: lvl.PreviousPriv}
			}
			return dev.Reply{Out: "% Invalid input detected at '^' marker.", Wrong: true}
		}})
		if lvl.EscalateAuth {
			parent := lvl.PreviousPriv
			modes = append(modes, &dev.Mode{Name: "pw:" + name, Prompt: t.PwPrompt[name], NoEcho: true, OnLine: func(d *dev.CLIDevice, line string) dev.Reply {
				if line == t.Secret {
					return dev.Reply{Next: name}
				}
				return dev.Reply{Out: "% Bad secrets", Next: parent, Wrong: true}
			}})
		}
	}
	return dev.NewCLI(start, modes...)
}

// Path returns the commands (escalate / deescalate, with the secret after authenticated escalations)
// along the unique tree path from cur to target.
func (t *TreeDev) Path(cur, target string) []string {
	anc := func(n string) []string {
		var a []string
		for n != "" {
			a = append(a, n)
			n = t.Levels[n].PreviousPriv
		}
		return a
	}
	ca, ta := anc(cur), anc(target)
	// lowest common ancestor
	pos := map[string]int{}
	for i, n := range ca {
		pos[n] = i
	}
	lcaT := -1
	for i, n := range ta {
		if _, ok := pos[n]; ok {
			lcaT = i
			break
		}
	}
	if lcaT < 0 {
		return nil
	}
	lca := ta[lcaT]
	var cmds []string
	for _, n := range ca {
		if n == lca {
			break
		}
		cmds = append(cmds, t.Levels[n].Deescalate)
	}
	for i := lcaT - 1; i >= 0; i-- {
		n := ta[i]
		cmds = append(cmds, t.Levels[n].Escalate)
		if t.Levels[n].EscalateAuth && !t.NoAsk {
			cmds = append(cmds, t.Secret)
		}
	}
	return cmds
}

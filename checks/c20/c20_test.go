// C20 — the channel's byte queue is a lossless FIFO under concurrent use.
package c20

import (
	"fmt"
	"strings"
	"testing"
	"time"

	"github.com/anishathalye/porcupine"
	"github.com/scrapli/scrapligo/util"

	"verif/sched"
)

const (
	opEnq = iota
	opReq
	opDeq
	opAll
	opDepth
)

var opNames = []string{"Enq", "Req", "Deq", "All", "Depth"}

type qin struct {
	op int
	x  string
}

// reference model: the queue is a list of chunks, kept as a "\x00"-joined string
func split(s string) []string {
	if s == "" {
		return nil
	}
	return strings.Split(s, "\x00")
}

var model = porcupine.Model{
	Init: func() interface{} { return "" },
	Step: func(state, input, output interface{}) (bool, interface{}) {
		st := split(state.(string))
		in := input.(qin)
		switch in.op {
		case opEnq:
			return true, strings.Join(append(append([]string{}, st...), in.x), "\x00")
		case opReq:
			return true, strings.Join(append([]string{in.x}, st...), "\x00")
		case opDeq:
			out := output.(string)
			if len(st) == 0 {
				return out == "<nil>", state
			}
			return out == st[0], strings.Join(st[1:], "\x00")
		case opAll:
			out := output.(string)
			if len(st) == 0 {
				return out == "<nil>", state
			}
			return out == strings.Join(st, ""), ""
		case opDepth:
			return output.(int) == len(st), state
		}
		return false, state
	},
	Equal: func(a, b interface{}) bool { return a.(string) == b.(string) },
}

func bs(b []byte) string {
	if b == nil {
		return "<nil>"
	}
	return string(b)
}

// sequential enumeration: all operation sequences up to length n against the reference list
func seqScenario(n int) sched.Scenario {
	return sched.Scenario{Name: fmt.Sprintf("seq/len=%d", n), Run: func(w *sched.W) {
		ops := make([]int, n)
		var rec func(i int)
		run := func() {
			q := util.NewQueue()
			var ref []string
			next := 0
			var trace []string
			for _, op := range ops {
				switch op {
				case opEnq:
					x := string(rune('a' + next))
					next++
					q.Enqueue([]byte(x))
					ref = append(ref, x)
					trace = append(trace, "Enq("+x+")")
				case opReq:
					x := string(rune('A' + next))
					next++
					q.Requeue([]byte(x))
					ref = append([]string{x}, ref...)
					trace = append(trace, "Req("+x+")")
				case opDeq:
					got := bs(q.Dequeue())
					want := "<nil>"
					if len(ref) > 0 {
						want = ref[0]
						ref = ref[1:]
					}
					trace = append(trace, "Deq="+got)
					if got != want {
						w.Violate("seq:dequeue-mismatch", fmt.Sprintf("%v: got %q want %q", trace, got, want), strings.Join(trace, " "))
						return
					}
				case opAll:
					got := bs(q.DequeueAll())
					want := "<nil>"
					if len(ref) > 0 {
						want = strings.Join(ref, "")
						ref = nil
					}
					trace = append(trace, "All="+got)
					if got != want {
						w.Violate("seq:dequeueall-mismatch", fmt.Sprintf("%v: got %q want %q", trace, got, want), strings.Join(trace, " "))
						return
					}
				case opDepth:
					got := q.GetDepth()
					trace = append(trace, fmt.Sprintf("Depth=%d", got))
					if got != len(ref) {
						w.Violate("seq:depth-mismatch", fmt.Sprintf("%v: got %d want %d", trace, got, len(ref)), strings.Join(trace, " "))
						return
					}
				}
			}
			t := strings.Join(trace, " ")
			w.Case(t, t)
		}
		rec = func(i int) {
			if i == n {
				func() {
					defer func() {
						if r := recover(); r != nil {
							w.Violate("seq:panic", fmt.Sprintf("ops=%v: %v", ops, r), fmt.Sprint(ops))
						}
					}()
					run()
				}()
				return
			}
			for op := 0; op < 5; op++ {
				ops[i] = op
				rec(i + 1)
			}
		}
		rec(0)
	}}
}

// concurrent exploration
func progName(p []int) string {
	s := make([]string, len(p))
	for i, o := range p {
		s[i] = opNames[o]
	}
	return strings.Join(s, ",")
}

func concScenario(nprod int, prog []int, b sched.Bounds) sched.Scenario {
	name := fmt.Sprintf("conc/prod=%d/cons=%s/pre=%d", nprod, progName(prog), b.Pre)
	return sched.Scenario{Name: name, Run: func(w *sched.W) {
		cfg := sched.Config{Classes: []string{"q."}, Tick: time.Millisecond, Horizon: time.Second, Grace: 0, NoIdleAlt: true}
		w.Explore(cfg, b, func(e *sched.Env) {
			q := util.NewQueue()
			var hist []porcupine.Operation
			clk := int64(0)
			tick := func() int64 { clk++; return clk }
			var consumed []string // effective consumer stream
			e.Go("producer", func() {
				for i := 0; i < nprod; i++ {
					x := string(rune('a' + i))
					c := tick()
					q.Enqueue([]byte(x))
					hist = append(hist, porcupine.Operation{ClientId: 0, Input: qin{opEnq, x}, Call: c, Output: nil, Return: tick()})
				}
			})
			e.Go("consumer", func() {
				last := ""
				for _, op := range prog {
					switch op {
					case opDeq:
						c := tick()
						got := bs(q.Dequeue())
						hist = append(hist, porcupine.Operation{ClientId: 1, Input: qin{opDeq, ""}, Call: c, Output: got, Return: tick()})
						if got != "<nil>" {
							consumed = append(consumed, got)
							last = got
						}
					case opAll:
						c := tick()
						got := bs(q.DequeueAll())
						hist = append(hist, porcupine.Operation{ClientId: 1, Input: qin{opAll, ""}, Call: c, Output: got, Return: tick()})
						if got != "<nil>" {
							consumed = append(consumed, got)
							last = got
						}
					case opReq:
						if last == "" {
							continue
						}
						c := tick()
						q.Requeue([]byte(last))
						hist = append(hist, porcupine.Operation{ClientId: 1, Input: qin{opReq, last}, Call: c, Output: nil, Return: tick()})
						consumed = consumed[:len(consumed)-1]
						last = ""
					case opDepth:
						c := tick()
						got := q.GetDepth()
						hist = append(hist, porcupine.Operation{ClientId: 1, Input: qin{opDepth, ""}, Call: c, Output: got, Return: tick()})
					}
				}
			})
			e.OnFinish(func() {
				if e.Verdict != "" {
					e.Violate("conc:"+e.Verdict, "queue operations did not finish: %s", e.HangInfo)
					return
				}
				var hs []string
				for _, o := range hist {
					in := o.Input.(qin)
					hs = append(hs, fmt.Sprintf("%d:%s(%s)=%v@%d-%d", o.ClientId, opNames[in.op], in.x, o.Output, o.Call, o.Return))
				}
				e.Observe("%s", strings.Join(hs, " "))
				if !porcupine.CheckOperations(model, hist) {
					e.Violate("conc:not-linearizable", "history %v", hs)
				}
				// conservation: effective consumer stream + what is left == produced, in order
				d := q.GetDepth()
				var left []string
				for i := 0; i < d; i++ {
					b := q.Dequeue()
					if b == nil {
						e.Violate("conc:depth-overcounts", "GetDepth=%d but dequeue %d returned nil; history %v", d, i, hs)
						return
					}
					left = append(left, string(b))
				}
				if b := q.Dequeue(); b != nil {
					e.Violate("conc:depth-undercounts", "GetDepth=%d but more chunks held (%q); history %v", d, b, hs)
					return
				}
				want := ""
				for i := 0; i < nprod; i++ {
					want += string(rune('a' + i))
				}
				got := strings.Join(consumed, "") + strings.Join(left, "")
				if got != want {
					e.Violate("conc:bytes-lost-or-reordered", "consumer stream %q + left %q != produced %q; history %v", consumed, left, want, hs)
				}
			})
		})
	}}
}

func scenarios(tier string) []sched.Scenario {
	var out []sched.Scenario
	maxSeq, maxProg, pre, unb := 7, 4, 3, 5
	if tier == "thorough" {
		maxSeq, maxProg, pre, unb = 8, 5, 5, 6
	}
	for n := 1; n <= maxSeq; n++ {
		out = append(out, seqScenario(n))
	}
	consOps := []int{opDeq, opAll, opReq, opDepth}
	var progs [][]int
	var gen func(p []int)
	gen = func(p []int) {
		if len(p) > 0 {
			progs = append(progs, append([]int{}, p...))
		}
		if len(p) == maxProg {
			return
		}
		for _, o := range consOps {
			gen(append(p, o))
		}
	}
	gen(nil)
	for nprod := 1; nprod <= 3; nprod++ {
		for _, p := range progs {
			b := sched.Bounds{Pre: pre}
			if len(p)+nprod <= unb {
				b.Pre = 1000 // all interleavings
			}
			out = append(out, concScenario(nprod, p, b))
		}
	}
	return out
}

func TestCheck(t *testing.T) {
	sched.Main(t, sched.Check{
		ID:    "C20",
		Level: "model_checking",
		Rule: "sequential: every operation sequence over {Enqueue,Requeue,Dequeue,DequeueAll,GetDepth} up to the length bound against a reference list (distinct = distinct traces); " +
			"concurrent: every interleaving (within the preemption bound; unbounded for programs with <=4 operations in total) of one producer (1..3 enqueues) and one consumer program over the hooked lock/mailbox steps of util.Queue; " +
			"an execution is distinct by its choice sequence + recorded call/return history; oracle = porcupine linearizability against the list model + byte conservation + depth agreement + no deadlock",
		Assumptions: []string{
			"scheduling points are the tag-guarded hooks before each Lock/RLock and around each depth-mailbox receive/send in util/queue.go; code between two hooks runs atomically",
			"single producer and single consumer, as the channel uses the queue",
			"memory-model effects are left to the separate free-running -race pass (c20 race leg)",
		},
		Scenarios: scenarios,
		Post:      sched.RacePost("TestC20"),
		Budget:    map[string]time.Duration{"quick": 4 * time.Minute, "thorough": 40 * time.Minute},
	})
}

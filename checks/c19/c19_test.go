// C19 — driver options land on their target regardless of order; user options win.
package c19

import (
	"bytes"
	"errors"
	"fmt"
	"io"
	"os"
	"path/filepath"
	"reflect"
	"regexp"
	"sort"
	"strings"
	"testing"
	"time"

	"github.com/scrapli/scrapligo/driver/generic"
	"github.com/scrapli/scrapligo/driver/netconf"
	"github.com/scrapli/scrapligo/driver/network"
	"github.com/scrapli/scrapligo/driver/options"
	"github.com/scrapli/scrapligo/logging"
	"github.com/scrapli/scrapligo/platform"
	"github.com/scrapli/scrapligo/transport"
	"github.com/scrapli/scrapligo/util"

	"verif/sched"
)

// ---- canonical snapshot -----------------------------------------------------------------------

type snap map[string]string

var known = map[uintptr]string{} // identities of harness-made values (functions, loggers, writers, maps)

func ident(v reflect.Value) string {
	if v.IsNil() {
		return "nil"
	}
	p := v.Pointer()
	if n, ok := known[p]; ok {
		return n
	}
	return "other"
}

func leaf(v reflect.Value) string {
	switch v.Kind() {
	case reflect.Func, reflect.Map, reflect.Chan:
		if v.Kind() == reflect.Map && !v.IsNil() {
			keys := []string{}
			for _, k := range v.MapKeys() {
				keys = append(keys, fmt.Sprint(k.Interface()))
			}
			sort.Strings(keys)
			return ident(v) + fmt.Sprint(keys)
		}
		return ident(v)
	case reflect.Ptr, reflect.Interface:
		if v.IsNil() {
			return "nil"
		}
		switch x := v.Interface().(type) {
		case *regexp.Regexp:
			return "re:" + x.String()
		case *logging.Instance:
			if n, ok := known[reflect.ValueOf(x).Pointer()]; ok {
				return n
			}
			return fmt.Sprintf("logger(level=%s,n=%d)", x.Level, len(x.Loggers))
		}
		e := v
		if v.Kind() == reflect.Interface {
			e = v.Elem()
		}
		if e.Kind() == reflect.Ptr {
			if n, ok := known[e.Pointer()]; ok {
				return n
			}
			return "ptr:" + e.Type().String()
		}
		return fmt.Sprintf("%v", v.Interface())
	case reflect.Slice:
		if v.Type().Elem().Kind() == reflect.Uint8 {
			return fmt.Sprintf("%q", v.Bytes())
		}
		if v.Len() == 0 {
			return "[]"
		}
		return fmt.Sprintf("%q", v.Interface())
	}
	return fmt.Sprintf("%v", v.Interface())
}

// fields adds the exported fields of the struct pointed to by x under prefix (one level; nested
// struct pointers named in descend are expanded).
func fields(s snap, prefix string, x interface{}, skip map[string]bool) {
	v := reflect.ValueOf(x)
	if v.Kind() == reflect.Ptr {
		if v.IsNil() {
			s[prefix+"<nil>"] = "nil"
			return
		}
		v = v.Elem()
	}
	t := v.Type()
	for i := 0; i < t.NumField(); i++ {
		f := t.Field(i)
		if f.PkgPath != "" || skip[f.Name] {
			continue
		}
		s[prefix+f.Name] = leaf(v.Field(i))
	}
}

func snapTransport(s snap, t *transport.Transport) {
	fields(s, "args.", t.Args, nil)
	s["impl.type"] = fmt.Sprintf("%T", t.Impl)
	if n, ok := known[reflect.ValueOf(t.Impl).Pointer()]; ok {
		s["impl.type"] = n
	}
	switch im := t.Impl.(type) {
	case *transport.System:
		fields(s, "impl.", im, map[string]bool{"SSHArgs": true})
		fields(s, "ssh.", im.SSHArgs, nil)
	case *transport.Standard:
		fields(s, "impl.", im, map[string]bool{"SSHArgs": true})
		fields(s, "ssh.", im.SSHArgs, nil)
	case *transport.File:
		fields(s, "impl.", im, map[string]bool{"Writes": true})
	case *transport.Telnet:
	}
}

func snapGeneric(s snap, d *generic.Driver) {
	fields(s, "drv.", d, map[string]bool{"Transport": true, "Channel": true})
	fields(s, "ch.", d.Channel, map[string]bool{"Q": true, "Errs": true})
	snapTransport(s, d.Transport)
}

type built struct {
	s      snap
	err    error
	resnap func() snap // snapshot of the same object taken again later
}

// construct builds a driver through one of the four constructors and snapshots it.
func construct(ctor string, opts []util.Option) (b built) {
	defer func() {
		if r := recover(); r != nil {
			b.err = fmt.Errorf("PANIC: %v", r)
		}
	}()
	s := snap{}
	switch ctor {
	case "generic":
		d, err := generic.NewDriver("host", opts...)
		if err != nil {
			return built{err: err}
		}
		snapGeneric(s, d)
		b.resnap = func() snap { r := snap{}; snapGeneric(r, d); return r }
	case "network":
		d, err := network.NewDriver("host", append([]util.Option{options.WithPrivilegeLevels(basePrivs), options.WithDefaultDesiredPriv("exec")}, opts...)...)
		if err != nil {
			return built{err: err}
		}
		snapGeneric(s, d.Driver)
		fields(s, "net.", d, map[string]bool{"Driver": true})
		b.resnap = func() snap {
			r := snap{}
			snapGeneric(r, d.Driver)
			fields(r, "net.", d, map[string]bool{"Driver": true})
			return r
		}
	case "netconf":
		d, err := netconf.NewDriver("host", opts...)
		if err != nil {
			return built{err: err}
		}
		fields(s, "nc.", d, map[string]bool{"Transport": true, "Channel": true})
		fields(s, "ch.", d.Channel, map[string]bool{"Q": true, "Errs": true})
		snapTransport(s, d.Transport)
		b.resnap = func() snap {
			r := snap{}
			fields(r, "nc.", d, map[string]bool{"Transport": true, "Channel": true})
			fields(r, "ch.", d.Channel, map[string]bool{"Q": true, "Errs": true})
			snapTransport(r, d.Transport)
			return r
		}
	case "platform":
		p, err := platform.NewPlatform([]byte(platformYAML("")), "host", opts...)
		if err != nil {
			return built{err: err}
		}
		d, err := p.GetNetworkDriver()
		if err != nil {
			return built{err: err}
		}
		snapGeneric(s, d.Driver)
		fields(s, "net.", d, map[string]bool{"Driver": true})
		b.resnap = func() snap {
			r := snap{}
			snapGeneric(r, d.Driver)
			fields(r, "net.", d, map[string]bool{"Driver": true})
			return r
		}
	}
	b.s = s
	return b
}

func platformYAML(optionsBlock string) string {
	y := `---
platform-type: 'verif'
default:
  driver-type: 'network'
  privilege-levels:
    exec:
      name: 'exec'
      pattern: '(?im)^r>$'
      previous-priv:
      deescalate:
      escalate:
      escalate-auth: false
      escalate-prompt:
  default-desired-privilege-level: 'exec'
`
	if optionsBlock != "" {
		y += "  options:\n" + optionsBlock
	}
	return y
}

var basePrivs = map[string]*network.PrivilegeLevel{"exec": {Name: "exec", Pattern: `(?im)^r>$`}}

// ---- the option table (reference model) ---------------------------------------------------------

type optSpec struct {
	name       string
	mk         func(v int) util.Option
	set        map[string][2]string // key -> expected value for v=0,1 (replace semantics)
	app        map[string][2]string // key -> appended element(s) rendering for v=0,1 (additive semantics)
	needs      string               // transport type required for the target to exist ("" any)
	dontCare   map[string]bool      // constructor -> the cell is ambiguous by design
	diff       bool                 // environment dependent: expectation taken from applying it alone
	ignoreImpl bool
}

func reg(name string, x interface{}) { known[reflect.ValueOf(x).Pointer()] = name }

var (
	tmpDir   string
	cfgFile  [2]string
	khFile   [2]string
	logW     = [2]io.Writer{&bytes.Buffer{}, &bytes.Buffer{}}
	loggers  [2]*logging.Instance
	gOnOpen  = [2]func(*generic.Driver) error{func(*generic.Driver) error { return nil }, func(*generic.Driver) error { return errors.New("x") }}
	gOnClose = [2]func(*generic.Driver) error{func(*generic.Driver) error { return nil }, func(*generic.Driver) error { return errors.New("x") }}
	nOnOpen  = [2]func(*network.Driver) error{func(*network.Driver) error { return nil }, func(*network.Driver) error { return errors.New("x") }}
	nOnClose = [2]func(*network.Driver) error{func(*network.Driver) error { return nil }, func(*network.Driver) error { return errors.New("x") }}
	privs    = [2]map[string]*network.PrivilegeLevel{{"a": {Name: "a", Pattern: "^a$"}}, {"b": {Name: "b", Pattern: "^b$"}, "c": {Name: "c", Pattern: "^c$"}}}
	customTr [2]transport.Implementation
)

func setup() {
	// a fresh registry per scenario: the objects registered by an earlier scenario of the same worker process may
	// have been collected, and the allocator hands their addresses to unrelated values
	known = map[uintptr]string{}
	tmpDir, _ = os.MkdirTemp("", "c19")
	for i := 0; i < 2; i++ {
		cfgFile[i] = filepath.Join(tmpDir, fmt.Sprintf("ssh_config_%d", i))
		khFile[i] = filepath.Join(tmpDir, fmt.Sprintf("known_hosts_%d", i))
		_ = os.WriteFile(cfgFile[i], []byte("Host *\n"), 0o600)
		_ = os.WriteFile(khFile[i], []byte(""), 0o600)
		loggers[i], _ = logging.NewInstance(logging.WithLevel("debug"), logging.WithLogger(func(...interface{}) {}))
		reg(fmt.Sprintf("L%d", i), loggers[i])
		reg(fmt.Sprintf("W%d", i), logW[i])
		reg(fmt.Sprintf("gOnOpen%d", i), gOnOpen[i])
		reg(fmt.Sprintf("gOnClose%d", i), gOnClose[i])
		reg(fmt.Sprintf("nOnOpen%d", i), nOnOpen[i])
		reg(fmt.Sprintf("nOnClose%d", i), nOnClose[i])
		reg(fmt.Sprintf("P%d", i), privs[i])
		f, _ := transport.NewFileTransport()
		customTr[i] = f
		reg(fmt.Sprintf("T%d", i), f)
	}
	reg("Pbase", basePrivs)
}

func re(i int, a, b string) *regexp.Regexp {
	if i == 0 {
		return regexp.MustCompile(a)
	}
	return regexp.MustCompile(b)
}

func two(a, b string) [2]string { return [2]string{a, b} }

// sl builds a slice with spare capacity, as slices built by append (YAML lists, accumulated flags) have: an
// option that keeps the caller's slice and later appends to it would write into memory shared with other drivers.
func sl(e ...string) []string { return append(make([]string, 0, len(e)+6), e...) }

func specs() []optSpec {
	pick := func(v int, a, b string) string {
		if v == 0 {
			return a
		}
		return b
	}
	nn := map[string]bool{"netconf": true, "network": true, "platform": true}
	return []optSpec{
		{name: "AuthUsername", mk: func(v int) util.Option { return options.WithAuthUsername(pick(v, "u0", "u1")) }, set: map[string][2]string{"args.User": two("u0", "u1")}},
		{name: "AuthPassword", mk: func(v int) util.Option { return options.WithAuthPassword(pick(v, "p0", "p1")) }, set: map[string][2]string{"args.Password": two("p0", "p1")}},
		{name: "AuthSecondary", mk: func(v int) util.Option { return options.WithAuthSecondary(pick(v, "s0", "s1")) }, set: map[string][2]string{"net.AuthSecondary": two("s0", "s1")}},
		{name: "AuthPassphrase", mk: func(v int) util.Option { return options.WithAuthPassphrase(pick(v, "pp0", "pp1")) }, set: map[string][2]string{"ssh.PrivateKeyPassPhrase": two("pp0", "pp1")}},
		{name: "AuthBypass", mk: func(v int) util.Option { return options.WithAuthBypass() }, set: map[string][2]string{"ch.AuthBypass": two("true", "true")}},
		{name: "PromptSearchDepth", mk: func(v int) util.Option { return options.WithPromptSearchDepth(100 + v) }, set: map[string][2]string{"ch.PromptSearchDepth": two("100", "101")}},
		{name: "PromptPattern", mk: func(v int) util.Option { return options.WithPromptPattern(re(v, "^p0$", "^p1$")) }, set: map[string][2]string{"ch.PromptPattern": two("re:^p0$", "re:^p1$")}, dontCare: nn},
		{name: "UsernamePattern", mk: func(v int) util.Option { return options.WithUsernamePattern(re(v, "^u0$", "^u1$")) }, set: map[string][2]string{"ch.UsernamePattern": two("re:^u0$", "re:^u1$")}},
		{name: "PasswordPattern", mk: func(v int) util.Option { return options.WithPasswordPattern(re(v, "^w0$", "^w1$")) }, set: map[string][2]string{"ch.PasswordPattern": two("re:^w0$", "re:^w1$")}},
		{name: "PassphrasePattern", mk: func(v int) util.Option { return options.WithPassphrasePattern(re(v, "^h0$", "^h1$")) }, set: map[string][2]string{"ch.PassphrasePattern": two("re:^h0$", "re:^h1$")}},
		{name: "ReturnChar", mk: func(v int) util.Option { return options.WithReturnChar(pick(v, "\r", "\r\n")) }, set: map[string][2]string{"ch.ReturnChar": two(`"\r"`, `"\r\n"`)}},
		{name: "TimeoutOps", mk: func(v int) util.Option { return options.WithTimeoutOps(time.Duration(7+v) * time.Second) }, set: map[string][2]string{"ch.TimeoutOps": two("7s", "8s")}},
		{name: "ReadDelay", mk: func(v int) util.Option { return options.WithReadDelay(time.Duration(3+v) * time.Millisecond) }, set: map[string][2]string{"ch.ReadDelay": two("3ms", "4ms")}},
		{name: "ChannelLog", mk: func(v int) util.Option { return options.WithChannelLog(logW[v]) }, set: map[string][2]string{"ch.ChannelLog": two("W0", "W1")}},
		{name: "TransportType", mk: func(v int) util.Option { return options.WithTransportType(pick(v, "standard", "telnet")) },
			set: map[string][2]string{"drv.TransportType": two("standard", "telnet"), "nc.TransportType": two("standard", "telnet"), "impl.type": two("*transport.Standard", "*transport.Telnet")}, ignoreImpl: true},
		{name: "FailedWhenContains", mk: func(v int) util.Option { return options.WithFailedWhenContains(sl(pick(v, "f0", "f1"))) }, set: map[string][2]string{"drv.FailedWhenContains": two(`["f0"]`, `["f1"]`)}},
		{name: "OnOpen", mk: func(v int) util.Option { return options.WithOnOpen(gOnOpen[v]) }, set: map[string][2]string{"drv.OnOpen": two("gOnOpen0", "gOnOpen1")}},
		{name: "OnClose", mk: func(v int) util.Option { return options.WithOnClose(gOnClose[v]) }, set: map[string][2]string{"drv.OnClose": two("gOnClose0", "gOnClose1")}},
		{name: "Logger", mk: func(v int) util.Option { return options.WithLogger(loggers[v]) }, set: map[string][2]string{"drv.Logger": two("L0", "L1"), "nc.Logger": two("L0", "L1")}},
		{name: "DefaultLogger", mk: func(v int) util.Option { return options.WithDefaultLogger() }, set: map[string][2]string{"drv.Logger": two("logger(level=info,n=1)", "logger(level=info,n=1)"), "nc.Logger": two("logger(level=info,n=1)", "logger(level=info,n=1)")}},
		{name: "NetconfPreferredVersion", mk: func(v int) util.Option { return options.WithNetconfPreferredVersion(pick(v, "1.0", "1.1")) }, set: map[string][2]string{"nc.PreferredVersion": two("1.0", "1.1")}},
		{name: "NetconfForceSelfClosingTags", mk: func(v int) util.Option { return options.WithNetconfForceSelfClosingTags() }, set: map[string][2]string{"nc.ForceSelfClosingTags": two("true", "true")}},
		{name: "NetconfExcludeHeader", mk: func(v int) util.Option { return options.WithNetconfExcludeHeader() }, set: map[string][2]string{"nc.ExcludeHeader": two("true", "true")}},
		{name: "NetworkOnOpen", mk: func(v int) util.Option { return options.WithNetworkOnOpen(nOnOpen[v]) }, set: map[string][2]string{"net.OnOpen": two("nOnOpen0", "nOnOpen1")}},
		{name: "NetworkOnClose", mk: func(v int) util.Option { return options.WithNetworkOnClose(nOnClose[v]) }, set: map[string][2]string{"net.OnClose": two("nOnClose0", "nOnClose1")}},
		{name: "PrivilegeLevels", mk: func(v int) util.Option { return options.WithPrivilegeLevels(privs[v]) }, set: map[string][2]string{"net.PrivilegeLevels": two("P0[a]", "P1[b c]")}, dontCare: map[string]bool{"network": true, "platform": true}},
		{name: "DefaultDesiredPriv", mk: func(v int) util.Option { return options.WithDefaultDesiredPriv(pick(v, "d0", "d1")) }, set: map[string][2]string{"net.DefaultDesiredPriv": two("d0", "d1")}},
		{name: "CustomTransport", mk: func(v int) util.Option { return options.WithCustomTransport(customTr[v]) }, set: map[string][2]string{"args.UserImplementation": two("T0", "T1"), "impl.type": two("T0", "T1")}, ignoreImpl: true},
		{name: "TransportReadSize", mk: func(v int) util.Option { return options.WithTransportReadSize(100 + v) }, set: map[string][2]string{"args.ReadSize": two("100", "101")}},
		{name: "Port", mk: func(v int) util.Option { return options.WithPort(2022 + v) }, set: map[string][2]string{"args.Port": two("2022", "2023")}},
		{name: "TermHeight", mk: func(v int) util.Option { return options.WithTermHeight(50 + v) }, set: map[string][2]string{"args.TermHeight": two("50", "51")}},
		{name: "TermWidth", mk: func(v int) util.Option { return options.WithTermWidth(132 + v) }, set: map[string][2]string{"args.TermWidth": two("132", "133")}},
		{name: "TimeoutSocket", mk: func(v int) util.Option { return options.WithTimeoutSocket(time.Duration(11+v) * time.Second) }, set: map[string][2]string{"args.TimeoutSocket": two("11s", "12s")}},
		{name: "FileTransportFile", mk: func(v int) util.Option { return options.WithFileTransportFile(pick(v, "f0.txt", "f1.txt")) }, set: map[string][2]string{"impl.F": two("f0.txt", "f1.txt")}, needs: "file"},
		{name: "AuthPrivateKey", mk: func(v int) util.Option {
			return options.WithAuthPrivateKey(pick(v, "/k0", "/k1"), pick(v, "kp0", "kp1"))
		}, set: map[string][2]string{"ssh.PrivateKeyPath": two("/k0", "/k1"), "ssh.PrivateKeyPassPhrase": two("kp0", "kp1")}},
		{name: "AuthNoStrictKey", mk: func(v int) util.Option { return options.WithAuthNoStrictKey() }, set: map[string][2]string{"ssh.StrictKey": two("false", "false")}},
		{name: "SSHConfigFile", mk: func(v int) util.Option { return options.WithSSHConfigFile(cfgFile[v]) }, set: map[string][2]string{"ssh.ConfigFile": two(cfgFile[0], cfgFile[1])}},
		{name: "SSHConfigFileSystem", mk: func(v int) util.Option { return options.WithSSHConfigFileSystem() }, diff: true},
		{name: "SSHKnownHostsFile", mk: func(v int) util.Option { return options.WithSSHKnownHostsFile(khFile[v]) }, set: map[string][2]string{"ssh.KnownHostsFile": two(khFile[0], khFile[1])}},
		{name: "SSHKnownHostsFileSystem", mk: func(v int) util.Option { return options.WithSSHKnownHostsFileSystem() }, diff: true},
		{name: "StandardExtraCiphers", mk: func(v int) util.Option {
			return options.WithStandardTransportExtraCiphers(sl(pick(v, "c0", "c1")))
		}, set: map[string][2]string{"impl.ExtraCiphers": two(`["c0"]`, `["c1"]`)}, needs: "standard"},
		{name: "StandardExtraKexs", mk: func(v int) util.Option { return options.WithStandardTransportExtraKexs(sl(pick(v, "k0", "k1"))) }, set: map[string][2]string{"impl.ExtraKexs": two(`["k0"]`, `["k1"]`)}, needs: "standard"},
		{name: "SystemOpenBin", mk: func(v int) util.Option { return options.WithSystemTransportOpenBin(pick(v, "/bin/s0", "/bin/s1")) }, set: map[string][2]string{"impl.OpenBin": two("/bin/s0", "/bin/s1")}, needs: "system"},
		// ssh arguments come as flag/value pairs: the two values share their first token
		{name: "SystemOpenArgs", mk: func(v int) util.Option { return options.WithSystemTransportOpenArgs(sl("-o", pick(v, "A=0", "B=1"))) }, app: map[string][2]string{"impl.ExtraArgs": two("-o\x00A=0", "-o\x00B=1")}, needs: "system"},
		// the ordinary "unencrypted key" call: names the key path and (empty) passphrase
		{name: "AuthPrivateKeyPlain", mk: func(v int) util.Option {
			return options.WithAuthPrivateKey(pick(v, "/k2", "/k3"), "")
		}, set: map[string][2]string{"ssh.PrivateKeyPath": two("/k2", "/k3"), "ssh.PrivateKeyPassPhrase": two("", "")}},
		{name: "SystemOpenArgsOverride", mk: func(v int) util.Option {
			return options.WithSystemTransportOpenArgsOverride(sl(pick(v, "o0", "o1")))
		}, set: map[string][2]string{"impl.OpenArgs": two(`["o0"]`, `["o1"]`)}, needs: "system"},
	}
}

type appl struct {
	spec optSpec
	v    int
}

// expect folds the table over the default snapshot in list order.
func expect(ctor string, def snap, list []appl, singles map[string]snap) (snap, map[string]bool) {
	want := snap{}
	for k, v := range def {
		want[k] = v
	}
	ignore := map[string]bool{}
	apps := map[string][]string{}
	for _, a := range list {
		if a.spec.dontCare[ctor] {
			for k := range a.spec.set {
				ignore[k] = true
			}
			if a.spec.name == "PrivilegeLevels" {
				ignore["ch.PromptPattern"] = true // the joined pattern is derived from the levels
			}
		}
		if a.spec.ignoreImpl {
			for k := range def {
				if strings.HasPrefix(k, "impl.") && k != "impl.type" || strings.HasPrefix(k, "ssh.") {
					ignore[k] = true
				}
			}
			ignore["*impl"] = true
		}
		if a.spec.diff {
			// environment dependent: whatever applying it alone yields
			one := singles[fmt.Sprintf("%s/%d", a.spec.name, a.v)]
			for k, v := range one {
				if def[k] != v {
					want[k] = v
				}
			}
			continue
		}
		for k, vals := range a.spec.set {
			if _, ok := def[k]; ok {
				want[k] = vals[a.v]
			}
		}
		for k, vals := range a.spec.app {
			if _, ok := def[k]; ok {
				apps[k] = append(apps[k], strings.Split(vals[a.v], "\x00")...) // several elements are NUL separated
				want[k] = fmt.Sprintf("%q", apps[k])
			}
		}
	}
	// a user supplied implementation is used whatever transport type is named (different settings)
	for _, a := range list {
		if a.spec.name == "CustomTransport" {
			want["impl.type"] = a.spec.set["impl.type"][a.v]
		}
	}
	return want, ignore
}

func diffSnap(got, want snap, ignore map[string]bool) string {
	var keys []string
	for k := range want {
		keys = append(keys, k)
	}
	for k := range got {
		if _, ok := want[k]; !ok {
			keys = append(keys, k)
		}
	}
	sort.Strings(keys)
	for _, k := range keys {
		if ignore[k] || (ignore["*impl"] && (strings.HasPrefix(k, "impl.") && k != "impl.type" || strings.HasPrefix(k, "ssh."))) {
			continue
		}
		if got[k] != want[k] {
			return fmt.Sprintf("%s = %q, want %q", k, got[k], want[k])
		}
	}
	return ""
}

var ctors = []string{"generic", "network", "netconf", "platform"}

func baseFor(needs string) []util.Option {
	if needs == "" || needs == "system" {
		return nil
	}
	return []util.Option{options.WithTransportType(needs)}
}

func checkList(w *sched.W, ctor string, base string, list []appl, tag string) {
	var opts []util.Option
	opts = append(opts, baseFor(base)...)
	def := construct(ctor, opts)
	if def.err != nil {
		w.Violate("c19:default-construction-failed", fmt.Sprintf("%s base=%s: %v", ctor, base, def.err), tag)
		return
	}
	singles := map[string]snap{}
	names := []string{}
	for _, a := range list {
		names = append(names, fmt.Sprintf("%s#%d", a.spec.name, a.v))
		if a.spec.diff {
			one := construct(ctor, append(append([]util.Option{}, opts...), a.spec.mk(a.v)))
			if one.err != nil {
				return // environment does not provide the file: nothing to compare
			}
			singles[fmt.Sprintf("%s/%d", a.spec.name, a.v)] = one.s
		}
		opts = append(opts, a.spec.mk(a.v))
	}
	cse := fmt.Sprintf("%s ctor=%s base=%s opts=[%s]", tag, ctor, base, strings.Join(names, " "))
	got := construct(ctor, opts)
	w.Case("", cse)
	if got.err != nil {
		sig := "c19:construction-failed"
		if strings.HasPrefix(got.err.Error(), "PANIC") {
			sig = "c19:construction-panics"
		}
		w.Violate(sig, cse+": "+got.err.Error(), cse)
		return
	}
	want, ignore := expect(ctor, def.s, list, singles)
	if d := diffSnap(got.s, want, ignore); d != "" {
		sig := "c19:option-effect-differs"
		for _, a := range list {
			if strings.HasPrefix(d, "nc.Logger") && (a.spec.name == "Logger" || a.spec.name == "DefaultLogger") {
				sig = "c19:netconf-logger-not-applied"
			}
		}
		w.Violate(sig, cse+": "+d, cse)
	}
}

func perm(n int, f func([]int)) {
	p := make([]int, n)
	for i := range p {
		p[i] = i
	}
	var rec func(k int)
	rec = func(k int) {
		if k == n {
			f(p)
			return
		}
		for i := k; i < n; i++ {
			p[k], p[i] = p[i], p[k]
			rec(k + 1)
			p[k], p[i] = p[i], p[k]
		}
	}
	rec(0)
}

func scenarios(tier string) []sched.Scenario {
	var out []sched.Scenario
	for _, ctor := range ctors {
		ctor := ctor
		out = append(out, sched.Scenario{Name: "singles/" + ctor, Run: func(w *sched.W) {
			setup()
			defer os.RemoveAll(tmpDir)
			sp := specs()
			for _, s := range sp {
				for v := 0; v < 2; v++ {
					for _, base := range []string{"", "standard", "telnet", "file"} {
						checkList(w, ctor, base, []appl{{s, v}}, "single")
					}
				}
			}
		}})
		out = append(out, sched.Scenario{Name: "pairs/" + ctor, Run: func(w *sched.W) {
			setup()
			defer os.RemoveAll(tmpDir)
			sp := specs()
			for _, a := range sp {
				for _, b := range sp {
					for _, vv := range [][2]int{{0, 1}, {1, 0}} {
						bases := map[string]bool{"": true}
						if a.needs != "" {
							bases[a.needs] = true
						}
						if b.needs != "" {
							bases[b.needs] = true
						}
						for base := range bases {
							if base == "system" {
								base = ""
							}
							checkList(w, ctor, base, []appl{{a, vv[0]}, {b, vv[1]}}, "pair")
						}
					}
				}
			}
		}})
		out = append(out, sched.Scenario{Name: "subslice/" + ctor, Run: func(w *sched.W) {
			// the caller passes a prefix of a longer option list (a "forall subsets" case): the constructor must not
			// touch the rest of the caller's list, and a driver built from the whole list afterwards gets every option
			setup()
			defer os.RemoveAll(tmpDir)
			sp := specs()
			by := map[string]optSpec{}
			for _, s := range sp {
				by[s.name] = s
			}
			names := []string{"AuthUsername", "Port", "TermWidth", "TimeoutOps", "ReadDelay", "AuthPassword"}
			for k := 1; k < len(names); k++ {
				all := make([]util.Option, 0, len(names)+2)
				var list []appl
				for _, n := range names {
					all = append(all, by[n].mk(1))
					list = append(list, appl{by[n], 1})
				}
				cse := fmt.Sprintf("subslice ctor=%s prefix=%d of %v", ctor, k, names)
				w.Case("", cse)
				before := reflect.ValueOf(all[k]).Pointer()
				if b := construct(ctor, all[:k]); b.err != nil {
					w.Violate("c19:construction-failed", cse+": "+b.err.Error(), cse)
					continue
				}
				if reflect.ValueOf(all[k]).Pointer() != before {
					w.Violate("c19:constructor-overwrites-callers-option-list", cse+": element "+fmt.Sprint(k)+" of the caller's option list was replaced while building a driver from its first "+fmt.Sprint(k)+" elements", cse)
				}
				// the whole list still configures a driver as if nothing had happened
				def := construct("generic", nil)
				got := construct("generic", all)
				if def.err == nil && got.err == nil {
					want, ignore := expect("generic", def.s, list, map[string]snap{})
					if d := diffSnap(got.s, want, ignore); d != "" {
						w.Violate("c19:constructor-overwrites-callers-option-list", cse+": a generic driver built from the whole list afterwards has "+d, cse)
					}
				}
			}
		}})
		out = append(out, sched.Scenario{Name: "reuse/" + ctor, Run: func(w *sched.W) {
			// the same option values are used for two drivers (shared defaults + a per-host option): building the
			// second driver must leave the first one as it was
			setup()
			defer os.RemoveAll(tmpDir)
			sp := specs()
			for _, a := range sp {
				for _, b := range sp {
					if a.needs != "" && b.needs != "" && a.needs != b.needs {
						continue
					}
					if a.name == "CustomTransport" {
						continue // the user hands over one transport object: sharing it is the user's choice
					}
					base := a.needs
					if base == "" {
						base = b.needs
					}
					if base == "system" {
						base = ""
					}
					cse := fmt.Sprintf("reuse ctor=%s base=%s shared=%s then %s#0 / %s#1", ctor, base, a.name, b.name, b.name)
					w.Case("", cse)
					shared := a.mk(0)
					o1 := append(append(append([]util.Option{}, baseFor(base)...), shared), b.mk(0))
					o2 := append(append(append([]util.Option{}, baseFor(base)...), shared), b.mk(1))
					d1 := construct(ctor, o1)
					if d1.err != nil || d1.resnap == nil {
						continue
					}
					d2 := construct(ctor, o2)
					if d2.err != nil {
						continue
					}
					after := d1.resnap()
					if d := diffSnap(after, d1.s, map[string]bool{}); d != "" {
						w.Violate("c19:second-driver-changes-first", cse+": after the second driver was built the first one has "+d, cse)
					}
				}
			}
		}})
		out = append(out, sched.Scenario{Name: "groups/" + ctor, Run: func(w *sched.W) {
			setup()
			defer os.RemoveAll(tmpDir)
			sp := specs()
			by := map[string]optSpec{}
			for _, s := range sp {
				by[s.name] = s
			}
			fixed := []string{"AuthUsername", "Port", "TimeoutOps", "ReadDelay", "TermWidth", "FailedWhenContains", "AuthSecondary", "NetconfExcludeHeader", "TransportReadSize", "ReturnChar"}
			groups := [][]appl{
				{{by["AuthPrivateKey"], 0}, {by["AuthPassphrase"], 1}, {by["AuthPrivateKey"], 1}},
				{{by["AuthPrivateKey"], 0}, {by["AuthPassphrase"], 1}, {by["AuthPrivateKeyPlain"], 1}},
				{{by["SSHKnownHostsFile"], 0}, {by["SSHKnownHostsFileSystem"], 0}, {by["SSHKnownHostsFile"], 1}},
				{{by["SSHConfigFile"], 0}, {by["SSHConfigFileSystem"], 0}, {by["SSHConfigFile"], 1}},
				{{by["Logger"], 0}, {by["DefaultLogger"], 0}, {by["Logger"], 1}},
				{{by["SystemOpenArgs"], 0}, {by["SystemOpenArgsOverride"], 0}, {by["SystemOpenArgs"], 1}},
				{{by["OnOpen"], 0}, {by["OnOpen"], 1}, {by["NetworkOnOpen"], 0}},
			}
			for _, g := range groups {
				perm(len(g), func(p []int) {
					// every way of embedding the permuted group into the fixed list, keeping both orders
					n := len(fixed)
					for i := 0; i <= n; i++ {
						for j := i; j <= n; j++ {
							for k := j; k <= n; k++ {
								pos := []int{i, j, k}
								var list []appl
								gi := 0
								for x := 0; x <= n; x++ {
									for gi < len(g) && pos[gi] == x {
										list = append(list, g[p[gi]])
										gi++
									}
									if x < n {
										list = append(list, appl{by[fixed[x]], x % 2})
									}
								}
								checkList(w, ctor, "", list, "group")
							}
						}
					}
				})
			}
		}})
	}
	out = append(out, sched.Scenario{Name: "invalid", Run: func(w *sched.W) {
		setup()
		defer os.RemoveAll(tmpDir)
		type bad struct {
			name string
			o    util.Option
			want string // "badoption" or "error"
		}
		bads := []bad{
			{"TransportType(bogus)", options.WithTransportType("bogus"), "badoption"},
			{"NetconfPreferredVersion(2.0)", options.WithNetconfPreferredVersion("2.0"), "badoption"},
			{"SSHConfigFile(missing)", options.WithSSHConfigFile(filepath.Join(tmpDir, "missing")), "error"},
			{"SSHKnownHostsFile(missing)", options.WithSSHKnownHostsFile(filepath.Join(tmpDir, "missing")), "error"},
		}
		for _, ctor := range ctors {
			for _, b := range bads {
				if b.name == "NetconfPreferredVersion(2.0)" && ctor != "netconf" {
					// the option validates before looking at its target: every constructor rejects it
				}
				for pos := 0; pos < 3; pos++ {
					list := []util.Option{options.WithPort(1), options.WithTermWidth(2)}
					list = append(list[:pos], append([]util.Option{b.o}, list[pos:]...)...)
					got := construct(ctor, list)
					cse := fmt.Sprintf("invalid %s ctor=%s pos=%d", b.name, ctor, pos)
					w.Case("", cse)
					switch {
					case got.err == nil:
						w.Violate("c19:invalid-value-accepted", cse, cse)
					case strings.HasPrefix(got.err.Error(), "PANIC"):
						w.Violate("c19:invalid-value-panics", cse+": "+got.err.Error(), cse)
					case b.want == "badoption" && !errors.Is(got.err, util.ErrBadOption):
						w.Violate("c19:invalid-value-wrong-error", cse+": "+got.err.Error(), cse)
					}
				}
			}
		}
		// network driver without privilege levels
		if _, err := network.NewDriver("h"); !errors.Is(err, util.ErrBadOption) {
			w.Violate("c19:network-without-levels", fmt.Sprint(err), "network-without-levels")
		}
	}})
	out = append(out, sched.Scenario{Name: "platform-options", Run: platformOptions})
	return out
}

type popt struct {
	name  string
	yaml  string // value as YAML
	key   string
	want  string
	needs string
	user  util.Option // user option for the same setting
	uwant string
}

func platformOptions(w *sched.W) {
	setup()
	defer os.RemoveAll(tmpDir)
	list := []popt{
		{"port", "2022", "args.Port", "2022", "", options.WithPort(3033), "3033"},
		{"auth-bypass", "true", "ch.AuthBypass", "true", "", nil, ""},
		{"auth-bypass", "false", "ch.AuthBypass", "false", "", nil, ""},
		{"auth-strict-key", "false", "ssh.StrictKey", "false", "", nil, ""},
		{"auth-strict-key", "true", "ssh.StrictKey", "true", "", nil, ""},
		{"prompt-pattern", "'^pp$'", "", "", "", nil, ""}, // network constructor installs its own joined pattern
		{"username-pattern", "'^uu$'", "ch.UsernamePattern", "re:^uu$", "", options.WithUsernamePattern(regexp.MustCompile("^x$")), "re:^x$"},
		{"password-pattern", "'^pw$'", "ch.PasswordPattern", "re:^pw$", "", options.WithPasswordPattern(regexp.MustCompile("^x$")), "re:^x$"},
		{"passphrase-pattern", "'^ph$'", "ch.PassphrasePattern", "re:^ph$", "", options.WithPassphrasePattern(regexp.MustCompile("^x$")), "re:^x$"},
		{"return-char", `"\r\n"`, "ch.ReturnChar", `"\r\n"`, "", options.WithReturnChar("\r"), `"\r"`},
		{"read-delay", "0.005", "ch.ReadDelay", "5ms", "", options.WithReadDelay(9 * time.Millisecond), "9ms"},
		{"read-delay", "1", "ch.ReadDelay", "1s", "", nil, ""},
		{"read-delay", "0.00025", "ch.ReadDelay", "250µs", "", nil, ""}, // the library's own default, as a platform value
		{"timeout-ops", "0.0625", "ch.TimeoutOps", "62.5ms", "", nil, ""},
		{"timeout-ops", "12.5", "ch.TimeoutOps", "12.5s", "", options.WithTimeoutOps(3 * time.Second), "3s"},
		{"timeout-ops", "30", "ch.TimeoutOps", "30s", "", nil, ""},
		{"transport-type", "'standard'", "drv.TransportType", "standard", "", options.WithTransportType("telnet"), "telnet"},
		{"read-size", "4096", "args.ReadSize", "4096", "", options.WithTransportReadSize(77), "77"},
		{"transport-pty-height", "40", "args.TermHeight", "40", "", options.WithTermHeight(41), "41"},
		{"transport-pty-width", "120", "args.TermWidth", "120", "", options.WithTermWidth(121), "121"},
		{"transport-system-open-args", "['-o', 'KexAlgorithms=+x']", "impl.ExtraArgs", `["-o" "KexAlgorithms=+x"]`, "", options.WithSystemTransportOpenArgs([]string{"-v"}), `["-o" "KexAlgorithms=+x" "-v"]`},
	}
	// all options in one block, in every rotation of their order: each still lands on its own setting
	var uniq []popt
	seenName := map[string]bool{}
	for _, p := range list {
		if !seenName[p.name] && p.key != "" && p.name != "transport-type" { // (another transport type has no system open-args)
			seenName[p.name] = true
			uniq = append(uniq, p)
		}
	}
	for rot := 0; rot < len(uniq); rot++ {
		block := ""
		var order []string
		for i := range uniq {
			p := uniq[(i+rot)%len(uniq)]
			block += fmt.Sprintf("    - option: %s\n      value: %s\n", p.name, p.yaml)
			order = append(order, p.name)
		}
		cse := fmt.Sprintf("platform options block order=%v", order)
		w.Case("", cse)
		var got snap
		var err error
		func() {
			defer func() {
				if r := recover(); r != nil {
					err = fmt.Errorf("PANIC: %v", r)
				}
			}()
			pl, e := platform.NewPlatform([]byte(platformYAML(block)), "host")
			if e != nil {
				err = e
				return
			}
			d, e := pl.GetNetworkDriver()
			if e != nil {
				err = e
				return
			}
			got = snap{}
			snapGeneric(got, d.Driver)
		}()
		if err != nil {
			w.Violate("c19:platform-options-block-rejected", cse+": "+err.Error(), cse)
			continue
		}
		for _, p := range uniq {
			if got[p.key] != p.want {
				w.Violate("c19:platform-option-no-effect-in-block:"+p.name, fmt.Sprintf("%s: %s = %q want %q", cse, p.key, got[p.key], p.want), cse)
			}
		}
	}
	for _, p := range list {
		block := fmt.Sprintf("    - option: %s\n      value: %s\n", p.name, p.yaml)
		for _, withUser := range []bool{false, true} {
			if withUser && p.user == nil {
				continue
			}
			cse := fmt.Sprintf("platform option %s=%s user=%v", p.name, p.yaml, withUser)
			w.Case("", cse)
			var got snap
			var err error
			func() {
				defer func() {
					if r := recover(); r != nil {
						err = fmt.Errorf("PANIC: %v", r)
					}
				}()
				var opts []util.Option
				if withUser {
					opts = append(opts, p.user)
				}
				pl, e := platform.NewPlatform([]byte(platformYAML(block)), "host", opts...)
				if e != nil {
					err = e
					return
				}
				d, e := pl.GetNetworkDriver()
				if e != nil {
					err = e
					return
				}
				got = snap{}
				snapGeneric(got, d.Driver)
			}()
			if err != nil {
				sig := "c19:platform-option-rejected:" + p.name
				if strings.HasPrefix(err.Error(), "PANIC") {
					sig = "c19:platform-option-panics:" + p.name
				}
				w.Violate(sig, cse+": "+err.Error(), cse)
				continue
			}
			if p.key == "" {
				continue
			}
			want := p.want
			if withUser {
				want = p.uwant
			}
			if got[p.key] != want {
				sig := "c19:platform-option-no-effect:" + p.name + "=" + p.yaml
				if withUser {
					sig = "c19:user-option-does-not-win:" + p.name
				}
				w.Violate(sig, fmt.Sprintf("%s: %s = %q want %q", cse, p.key, got[p.key], want), cse)
			}
		}
	}
	// the same entries over the other transports (chosen by the user, or by the definition itself): an entry
	// that has nothing to say to that transport is skipped silently, one that has still takes effect
	for _, p := range list {
		if p.name == "transport-type" || p.name == "transport-system-open-args" {
			continue
		}
		for _, tt := range []string{"standard", "telnet"} {
			for _, byDef := range []bool{false, true} {
				block := fmt.Sprintf("    - option: %s\n      value: %s\n", p.name, p.yaml)
				var opts []util.Option
				if byDef {
					block += fmt.Sprintf("    - option: transport-type\n      value: '%s'\n", tt)
				} else {
					opts = append(opts, options.WithTransportType(tt))
				}
				cse := fmt.Sprintf("platform option %s=%s transport=%s set-by-definition=%v", p.name, p.yaml, tt, byDef)
				w.Case("", cse)
				var got snap
				var err error
				func() {
					defer func() {
						if r := recover(); r != nil {
							err = fmt.Errorf("PANIC: %v", r)
						}
					}()
					pl, e := platform.NewPlatform([]byte(platformYAML(block)), "host", opts...)
					if e != nil {
						err = e
						return
					}
					d, e := pl.GetNetworkDriver()
					if e != nil {
						err = e
						return
					}
					got = snap{}
					snapGeneric(got, d.Driver)
				}()
				if err != nil {
					w.Violate("c19:platform-option-rejected-on-"+tt+":"+p.name, cse+": "+err.Error(), cse)
					continue
				}
				if strings.HasPrefix(p.key, "ch.") && got[p.key] != p.want {
					w.Violate("c19:platform-option-no-effect-on-"+tt+":"+p.name, fmt.Sprintf("%s: %s = %q want %q", cse, p.key, got[p.key], p.want), cse)
				}
			}
		}
	}
}

func TestCheck(t *testing.T) {
	sched.Main(t, sched.Check{
		ID:    "C19",
		Level: "exploration",
		Rule:  "reference model = table option -> (setting, value, set/append semantics) folded in list order over the default snapshot (reflection over all exported fields of driver, channel, transport args, ssh args and implementation); enumerated: every option alone x 2 values x 4 transport bases x 4 constructors; every ordered pair of options (incl. the same option twice with different values); every permutation of 6 conflict groups at every position of a fixed 10-option list; documented invalid values at every position; every option name platform/options.go recognises as a YAML options block, alone, with the user's option for the same setting, and over the standard and telnet transports (chosen by the user / by the definition); distinct = distinct option lists per constructor",
		Assumptions: []string{
			"singles + pairs show each option writes only its own fields and reads none, so longer permutations equal the fold; conflict groups are permuted explicitly",
			"cells that are ambiguous by design are don't-care: prompt pattern under network/NETCONF/platform (they install their own), privilege levels under network/platform (the harness must supply its own first)",
			"options that look at the file system (system ssh config / known hosts) are checked differentially against applying them alone",
		},
		Scenarios: scenarios,
		Budget:    map[string]time.Duration{"quick": 4 * time.Minute, "thorough": 10 * time.Minute},
	})
}

// C16 — built-in transports are transparent, ordered byte pipes that unblock on close.
package c16

import (
	"bytes"
	"fmt"
	"io"
	"net"
	"os"
	"path/filepath"
	"strings"
	"sync"
	"testing"
	"time"

	"github.com/scrapli/scrapligo/driver/generic"
	"github.com/scrapli/scrapligo/driver/netconf"
	"github.com/scrapli/scrapligo/driver/options"
	"github.com/scrapli/scrapligo/logging"
	"github.com/scrapli/scrapligo/transport"
	"github.com/scrapli/scrapligo/util"

	"verif/checks/cm"
	"verif/dev"
	"verif/loop"
	"verif/sched"
)

const password = "l00p-PW"

func payload(n int) []byte {
	b := make([]byte, n)
	for i := range b {
		b[i] = byte((i*7 + 3) % 256)
	}
	// byte pairs that line disciplines and protocol filters like to touch: CR NUL, CR LF, doubled 0xFF, an escape
	// sequence, NUL CR -- at two places when there is room
	special := []byte("\r\x00\r\n\xff\xff\x1b[0m\x00\r")
	for _, at := range []int{n / 3, n - len(special) - 1} {
		if at >= 0 && at+len(special) <= n && n >= 2*len(special) {
			copy(b[at:], special)
		}
	}
	return b
}

func fakeBin() string { return filepath.Join(os.Getenv("VERIF_DIR"), "bin", "fakessh") }

// peer abstracts the other end of a transport.
type peer struct {
	open      func(readSize int) (*transport.Transport, error) // opens the client transport
	start     func()                                           // tell the peer the session is up (it may start sending)
	received  func() []byte                                    // what the peer got from the client
	closePeer func()                                           // the peer goes away
	freeze    func()                                           // the peer goes silent without closing anything (nil: not modelled)
	cleanup   func()
	ready     []byte // marker the peer prints before the session counts as up
}

var scripts = []string{"one", "halves", "bytes", "pause"}

// sockTimeout is the socket timeout the standard transport is opened with (lowered by the idle cells: it bounds
// connection set-up, not how long an established session may stay quiet).
var sockTimeout = 10 * time.Second

func sendScript(w io.Writer, b []byte, sc string) {
	switch sc {
	case "halves":
		_, _ = w.Write(b[:len(b)/2])
		time.Sleep(20 * time.Millisecond)
		_, _ = w.Write(b[len(b)/2:])
	case "bytes":
		for i := range b {
			_, _ = w.Write(b[i : i+1])
		}
	case "idle":
		// the peer says nothing for longer than the (lowered) socket timeout of the session, then carries on
		_, _ = w.Write(b[:1])
		time.Sleep(1500 * time.Millisecond)
		if len(b) > 1 {
			_, _ = w.Write(b[1:])
		}
	case "pause":
		_, _ = w.Write(b[:1])
		time.Sleep(60 * time.Millisecond)
		if len(b) > 1 {
			_, _ = w.Write(b[1:])
		}
	default:
		_, _ = w.Write(b)
	}
}

func noLog() *logging.Instance { l, _ := logging.NewInstance(); return l }

func netconfConn(o interface{}) error {
	a, ok := o.(*transport.SSHArgs)
	if !ok {
		return util.ErrIgnoredOption
	}
	a.NetconfConnection = true
	return nil
}

// mkPeer builds the rig for one grid cell. dir: "down" (peer->client), "up" (client->peer), "echo".
func mkPeer(kind, dir, sc string, data []byte, tmp string) (*peer, error) {
	var mu sync.Mutex
	var got []byte
	go1 := make(chan struct{})
	var once sync.Once
	start := func() { once.Do(func() { close(go1) }) }
	serve := func(ch io.ReadWriter, closer func()) {
		switch dir {
		case "down":
			<-go1
			sendScript(ch, data, sc)
		case "echo":
			buf := make([]byte, 65536)
			for {
				n, err := ch.Read(buf)
				if n > 0 {
					mu.Lock()
					got = append(got, buf[:n]...)
					mu.Unlock()
					_, _ = ch.Write(buf[:n])
				}
				if err != nil {
					return
				}
			}
		}
		buf := make([]byte, 65536)
		for {
			n, err := ch.Read(buf)
			if n > 0 {
				mu.Lock()
				got = append(got, buf[:n]...)
				mu.Unlock()
			}
			if err != nil {
				return
			}
		}
	}
	received := func() []byte { mu.Lock(); defer mu.Unlock(); return append([]byte{}, got...) }
	switch kind {
	case "standard-shell", "standard-netconf":
		var chans []io.Closer
		srv, err := loop.NewSSHServer(password, nil, func(k string, ch io.ReadWriteCloser) {
			mu.Lock()
			chans = append(chans, ch)
			mu.Unlock()
			serve(ch, nil)
		})
		if err != nil {
			return nil, err
		}
		return &peer{
			open: func(rs int) (*transport.Transport, error) {
				o := []util.Option{options.WithPort(srv.Port), options.WithAuthUsername("admin"), options.WithAuthPassword(password), options.WithAuthNoStrictKey(), options.WithTransportReadSize(rs), options.WithTimeoutSocket(sockTimeout)}
				if kind == "standard-netconf" {
					o = append(o, netconfConn)
				}
				t, err := transport.NewTransport(noLog(), "127.0.0.1", transport.StandardTransport, o...)
				if err != nil {
					return nil, err
				}
				return t, t.Open()
			},
			start: start, received: received,
			closePeer: func() {
				mu.Lock()
				for _, c := range chans {
					_ = c.Close()
				}
				mu.Unlock()
			},
			cleanup: srv.Close, freeze: srv.Freeze,
		}, nil
	case "telnet-loop":
		var conns []net.Conn
		srv, err := loop.NewTCPServer(func(c net.Conn) {
			mu.Lock()
			conns = append(conns, c)
			mu.Unlock()
			serve(c, nil)
		})
		if err != nil {
			return nil, err
		}
		return &peer{
			open: func(rs int) (*transport.Transport, error) {
				t, err := transport.NewTransport(noLog(), "127.0.0.1", transport.TelnetTransport, options.WithPort(srv.Port), options.WithTransportReadSize(rs), options.WithTimeoutSocket(200*time.Millisecond))
				if err != nil {
					return nil, err
				}
				return t, t.Open()
			},
			start: start, received: received,
			closePeer: func() {
				mu.Lock()
				for _, c := range conns {
					_ = c.Close()
				}
				mu.Unlock()
			},
			cleanup: srv.Close, freeze: srv.Freeze,
		}, nil
	case "system-pty", "system-pty-netconf":
		pf := filepath.Join(tmp, "payload")
		of := filepath.Join(tmp, "out")
		_ = os.WriteFile(pf, data, 0o600)
		_ = os.Remove(of)
		mode := map[string]string{"down": "source", "up": "sink", "echo": "echo"}[dir]
		os.Setenv("FAKESSH_MODE", mode)
		os.Setenv("FAKESSH_PAYLOAD_FILE", pf)
		os.Setenv("FAKESSH_OUT", of)
		os.Setenv("FAKESSH_SCRIPT", sc)
		os.Setenv("FAKESSH_LOG", "")
		os.Setenv("FAKESSH_EXIT", "")
		var tr *transport.Transport
		return &peer{
			open: func(rs int) (*transport.Transport, error) {
				o := []util.Option{options.WithSystemTransportOpenBin(fakeBin()), options.WithTransportReadSize(rs)}
				if kind == "system-pty-netconf" {
					o = append(o, netconfConn) // the netconf-subsystem flavour of the system transport has its own open path
				}
				t, err := transport.NewTransport(noLog(), "127.0.0.1", transport.SystemTransport, o...)
				if err != nil {
					return nil, err
				}
				tr = t
				return t, t.Open()
			},
			start: func() {},
			received: func() []byte {
				b, _ := os.ReadFile(of)
				return b
			},
			closePeer: func() {
				if s, ok := tr.Impl.(*transport.System); ok {
					_ = s
				}
			},
			cleanup: func() {},
			ready:   []byte("READY\n"),
		}, nil
	}
	return nil, fmt.Errorf("unknown kind %s", kind)
}

// readN reads from the transport until n bytes arrived (or the deadline passes).
func readN(t *transport.Transport, n int, skip []byte) ([]byte, error) {
	type rr struct {
		b   []byte
		err error
	}
	var got []byte
	deadline := time.After(30 * time.Second)
	ch := make(chan rr, 1)
	skipped := len(skip) == 0
	for len(got) < n || !skipped {
		go func() {
			b, err := t.Read()
			ch <- rr{b, err}
		}()
		select {
		case r := <-ch:
			got = append(got, r.b...)
			if !skipped {
				if i := bytes.Index(got, skip); i >= 0 {
					got = got[i+len(skip):]
					skipped = true
				}
			}
			if r.err != nil {
				return got, r.err
			}
		case <-deadline:
			return got, fmt.Errorf("timeout after %d of %d bytes", len(got), n)
		}
	}
	return got, nil
}

func gridCell(w *sched.W, kind string, rs, size int, sc, dir string) {
	tag := fmt.Sprintf("%s rs=%d size=%d script=%s dir=%s", kind, rs, size, sc, dir)
	if r := w.Replaying(); r != nil && r.Case != tag {
		return
	}
	w.Case(kind+dir, tag)
	tmp, _ := os.MkdirTemp("", "c16")
	defer os.RemoveAll(tmp)
	data := payload(size)
	p, err := mkPeer(kind, dir, sc, data, tmp)
	if err != nil {
		w.Violate("c16:harness", tag+": "+err.Error(), tag)
		return
	}
	defer p.cleanup()
	t, err := p.open(rs)
	if err != nil {
		w.Violate("c16:open-failed:"+kind, tag+": "+err.Error(), tag)
		return
	}
	defer func() { _ = t.Close(true) }()
	switch dir {
	case "down":
		p.start()
		got, err := readN(t, size, p.ready)
		if err != nil || !bytes.Equal(got, data) {
			w.Violate("c16:peer-to-client-differs:"+kind, fmt.Sprintf("%s: err=%v got %d bytes %s", tag, err, len(got), firstDiff(got, data)), tag)
		}
	case "up":
		if len(p.ready) > 0 {
			if _, err := readN(t, 0, p.ready); err != nil {
				w.Violate("c16:peer-not-ready", tag+": "+err.Error(), tag)
				return
			}
		}
		switch sc {
		case "halves":
			_ = t.Write(data[:len(data)/2])
			_ = t.Write(data[len(data)/2:])
		case "bytes":
			for i := range data {
				_ = t.Write(data[i : i+1])
			}
		default:
			if err := t.Write(data); err != nil {
				w.Violate("c16:write-failed:"+kind, tag+": "+err.Error(), tag)
				return
			}
		}
		ok := loop.WaitFor(30*time.Second, func() bool { return len(p.received()) >= size })
		got := p.received()
		if !ok || !bytes.Equal(got, data) {
			w.Violate("c16:client-to-peer-differs:"+kind, fmt.Sprintf("%s: peer got %d bytes %s", tag, len(got), firstDiff(got, data)), tag)
		}
	case "echo":
		if len(p.ready) > 0 {
			if _, err := readN(t, 0, p.ready); err != nil {
				w.Violate("c16:peer-not-ready", tag+": "+err.Error(), tag)
				return
			}
		}
		var back []byte
		step := size/3 + 1
		for off := 0; off < size; off += step {
			end := off + step
			if end > size {
				end = size
			}
			if err := t.Write(data[off:end]); err != nil {
				w.Violate("c16:write-failed:"+kind, tag+": "+err.Error(), tag)
				return
			}
			b, err := readN(t, end-off, nil)
			back = append(back, b...)
			if err != nil {
				break
			}
		}
		if !bytes.Equal(back, data) {
			w.Violate("c16:echo-differs:"+kind, fmt.Sprintf("%s: got %d bytes %s", tag, len(back), firstDiff(back, data)), tag)
		}
	}
}

func firstDiff(got, want []byte) string {
	n := len(got)
	if len(want) < n {
		n = len(want)
	}
	for i := 0; i < n; i++ {
		if got[i] != want[i] {
			return fmt.Sprintf("first difference at byte %d: got 0x%02x want 0x%02x", i, got[i], want[i])
		}
	}
	return fmt.Sprintf("lengths %d vs %d", len(got), len(want))
}

// unblockCell: a read that is blocked when the transport is closed (or the peer goes away) returns.
func unblockCell(w *sched.W, kind, how string) {
	tag := fmt.Sprintf("unblock %s %s", kind, how)
	if r := w.Replaying(); r != nil && r.Case != tag {
		return
	}
	w.Case(kind+how, tag)
	tmp, _ := os.MkdirTemp("", "c16")
	defer os.RemoveAll(tmp)
	if strings.HasPrefix(kind, "system-pty") && how == "peer-closes" {
		os.Setenv("FAKESSH_EXIT", "1")
		defer os.Setenv("FAKESSH_EXIT", "")
	}
	p, err := mkPeer(kind, "down", "one", []byte("x"), tmp)
	if err != nil {
		w.Violate("c16:harness", tag+": "+err.Error(), tag)
		return
	}
	defer p.cleanup()
	if strings.HasPrefix(kind, "system-pty") && how == "peer-closes" {
		os.Setenv("FAKESSH_EXIT", "1")
	}
	t, err := p.open(64)
	if err != nil {
		w.Violate("c16:open-failed:"+kind, tag+": "+err.Error(), tag)
		return
	}
	p.start()
	if _, err := readN(t, 1, p.ready); err != nil {
		w.Violate("c16:unblock-setup", tag+": "+err.Error(), tag)
		return
	}
	done := make(chan error, 1)
	go func() {
		_, err := t.Read() // nothing more will come: this blocks
		done <- err
	}()
	time.Sleep(50 * time.Millisecond)
	closed := make(chan struct{})
	switch how {
	case "close":
		go func() { _ = t.Close(true); close(closed) }()
	case "close-silent-peer":
		// the peer stopped answering (no reset, no close): Close cannot count on any reply from it
		p.freeze()
		time.Sleep(20 * time.Millisecond)
		go func() { _ = t.Close(true); close(closed) }()
	case "peer-closes":
		p.closePeer()
		close(closed)
	}
	select {
	case <-done:
	case <-time.After(30 * time.Second):
		w.Violate("c16:blocked-read-never-returns:"+kind+":"+how, tag, tag)
		return
	}
	select {
	case <-closed:
	case <-time.After(30 * time.Second): // whether Close itself returns is C07's question
		return
	}
	_ = t.Close(true)
}

// telnetNegCell: the server's opening (two option negotiations around a two-byte command, then text) reaches the client in two TCP
// segments cut at byte cutAt: the text, and nothing else, is returned by the first reads and both requests
// are answered. Generous real-time margins: the halves are 20ms apart, the client waits 2s/4s per byte.
func telnetNegCell(w *sched.W, rs, cutAt int) {
	tag := fmt.Sprintf("telnet-neg rs=%d cut=%d", rs, cutAt)
	if r := w.Replaying(); r != nil && r.Case != tag {
		return
	}
	w.Case(tag, tag)
	opening := []byte{255, 253, 1, 255, 241, 255, 251, 3} // IAC DO ECHO, IAC NOP, IAC WILL SGA
	wantReplies := []byte{255, 252, 1, 255, 253, 3}
	text := []byte("login: ")
	var mu sync.Mutex
	var replies []byte
	srv, err := loop.NewTCPServer(func(c net.Conn) {
		if tc, ok := c.(*net.TCPConn); ok {
			_ = tc.SetNoDelay(true)
		}
		_, _ = c.Write(opening[:cutAt])
		time.Sleep(20 * time.Millisecond)
		_, _ = c.Write(append(append([]byte{}, opening[cutAt:]...), text...))
		buf := make([]byte, 64)
		for {
			n, err := c.Read(buf)
			mu.Lock()
			replies = append(replies, buf[:n]...)
			mu.Unlock()
			if err != nil {
				return
			}
		}
	})
	if err != nil {
		w.Violate("c16:harness", tag+": "+err.Error(), tag)
		return
	}
	defer srv.Close()
	t, err := transport.NewTransport(noLog(), "127.0.0.1", transport.TelnetTransport, options.WithPort(srv.Port), options.WithTransportReadSize(rs), options.WithTimeoutSocket(8*time.Second))
	if err == nil {
		err = t.Open()
	}
	if err != nil {
		w.Violate("c16:open-failed:telnet-neg", tag+": "+err.Error(), tag)
		return
	}
	defer func() { _ = t.Close(true) }()
	got, rerr := readN(t, len(text), nil)
	if rerr != nil || !bytes.Equal(got, text) {
		w.Violate("c16:telnet-opening-data-differs", fmt.Sprintf("%s: first reads returned %v (%v) want %v", tag, got, rerr, text), tag)
	}
	loop.WaitFor(10*time.Second, func() bool { mu.Lock(); defer mu.Unlock(); return len(replies) >= len(wantReplies) })
	mu.Lock()
	defer mu.Unlock()
	if !bytes.Equal(replies, wantReplies) {
		w.Violate("c16:telnet-opening-replies-differ", fmt.Sprintf("%s: server received %v want %v", tag, replies, wantReplies), tag)
	}
}

// ---- end-to-end sessions ---------------------------------------------------------------------------

func e2eCLI(w *sched.W, kind string, rs int) {
	tag := "e2e-cli " + kind
	if rs > 0 {
		tag += fmt.Sprintf(" read-size=%d", rs)
	}
	if r := w.Replaying(); r != nil && r.Case != tag {
		return
	}
	w.Case(kind, tag)
	var opts []util.Option
	var cleanup func()
	wantOut := map[string]string{cm.Cmd1: cm.Out1, cm.Cmd2: cm.Out2}
	switch kind {
	case "standard-shell":
		sd := &loop.ServeDevice{}
		srv, err := loop.NewSSHServer(password, nil, func(k string, ch io.ReadWriteCloser) { sd.Run(cm.StdCLI("privilege-exec", false), ch) })
		if err != nil {
			w.Violate("c16:harness", err.Error(), tag)
			return
		}
		cleanup = srv.Close
		opts = []util.Option{options.WithTransportType("standard"), options.WithPort(srv.Port), options.WithAuthUsername("admin"), options.WithAuthPassword(password), options.WithAuthNoStrictKey()}
	case "telnet-loop":
		srv, err := loop.NewTCPServer(func(c net.Conn) {
			sd := &loop.ServeDevice{}
			sd.Run(cm.LoginCLI("telnet"), c)
		})
		if err != nil {
			w.Violate("c16:harness", err.Error(), tag)
			return
		}
		cleanup = srv.Close
		opts = []util.Option{options.WithTransportType("telnet"), options.WithPort(srv.Port), options.WithAuthUsername(cm.User), options.WithAuthPassword(cm.Pass), options.WithTimeoutSocket(400 * time.Millisecond)}
	case "system-pty":
		os.Setenv("FAKESSH_MODE", "cli")
		os.Setenv("FAKESSH_LOG", "")
		cleanup = func() {}
		opts = []util.Option{options.WithTransportType("system"), options.WithSystemTransportOpenBin(fakeBin())}
		wantOut = map[string]string{"show x": "x out"}
	}
	defer cleanup()
	if rs > 0 {
		opts = append(opts, options.WithTransportReadSize(rs)) // smaller than the banner, the echo and the outputs
	}
	d, err := generic.NewDriver("127.0.0.1", append(opts, options.WithTimeoutOps(20*time.Second))...)
	if err != nil {
		w.Violate("c16:e2e-new", tag+": "+err.Error(), tag)
		return
	}
	fin := make(chan string, 1)
	go func() {
		if err := d.Open(); err != nil {
			fin <- "open: " + err.Error()
			return
		}
		for round := 0; round < 2; round++ {
			for cmd, want := range wantOut {
				r, err := d.SendCommand(cmd)
				if err != nil || r.Result != want {
					fin <- fmt.Sprintf("command %q: result %v err %v want %q", cmd, r, err, want)
					return
				}
			}
		}
		if err := d.Close(); err != nil {
			fin <- "close: " + err.Error()
			return
		}
		fin <- ""
	}()
	select {
	case msg := <-fin:
		if msg != "" {
			w.Violate("c16:e2e-cli-differs:"+kind, tag+": "+msg, tag)
		}
	case <-time.After(60 * time.Second):
		w.Violate("c16:e2e-cli-hang:"+kind, tag, tag)
	}
}

func e2eNetconf(w *sched.W) {
	tag := "e2e-netconf standard-netconf"
	if r := w.Replaying(); r != nil && r.Case != tag {
		return
	}
	w.Case("nc", tag)
	srv, err := loop.NewSSHServer(password, nil, func(k string, ch io.ReadWriteCloser) {
		if !strings.HasPrefix(k, "subsystem:netconf") {
			return
		}
		sd := &loop.ServeDevice{}
		nc := &dev.NCServer{Hello: dev.HelloDoc([]string{dev.Cap10, dev.Cap11}, "42")}
		sd.Run(nc, ch)
	})
	if err != nil {
		w.Violate("c16:harness", err.Error(), tag)
		return
	}
	defer srv.Close()
	d, err := netconf.NewDriver("127.0.0.1", options.WithTransportType("standard"), options.WithPort(srv.Port), options.WithAuthUsername("admin"), options.WithAuthPassword(password), options.WithAuthNoStrictKey(), options.WithTimeoutOps(20*time.Second))
	if err != nil {
		w.Violate("c16:e2e-new", tag+": "+err.Error(), tag)
		return
	}
	fin := make(chan string, 1)
	go func() {
		if err := d.Open(); err != nil {
			fin <- "open: " + err.Error()
			return
		}
		if d.SelectedVersion != "1.1" || d.SessionID() != 42 {
			fin <- fmt.Sprintf("version %s session %d", d.SelectedVersion, d.SessionID())
			return
		}
		for i := 0; i < 2; i++ {
			r, err := d.Get("")
			if err != nil || r.Failed != nil || !strings.Contains(r.Result, "<ok/>") {
				fin <- fmt.Sprintf("get %d: %v %v", i, r, err)
				return
			}
		}
		if err := d.Close(); err != nil {
			fin <- "close: " + err.Error()
			return
		}
		fin <- ""
	}()
	select {
	case msg := <-fin:
		if msg != "" {
			w.Violate("c16:e2e-netconf-differs", tag+": "+msg, tag)
		}
	case <-time.After(60 * time.Second):
		w.Violate("c16:e2e-netconf-hang", tag, tag)
	}
}

func scenarios(tier string) []sched.Scenario {
	var out []sched.Scenario
	kinds := []string{"standard-shell", "standard-netconf", "telnet-loop", "system-pty", "system-pty-netconf"}
	for _, kind := range kinds {
		for _, rs := range []int{1, 7, 64, 8192} {
			kind, rs := kind, rs
			out = append(out, sched.Scenario{Name: fmt.Sprintf("grid/%s/rs=%d", kind, rs), Run: func(w *sched.W) {
				sizes := []int{1, rs - 1, rs, rs + 1, 2*rs + 1, 3 * rs}
				seen := map[int]bool{}
				for _, size := range sizes {
					if size < 1 || seen[size] {
						continue
					}
					seen[size] = true
					for _, sc := range scripts {
						if (sc == "bytes" && size > 300) || (tier != "thorough" && rs == 8192 && sc == "pause") {
							continue
						}
						for _, dir := range []string{"down", "up", "echo"} {
							if dir == "echo" && sc != "one" {
								continue
							}
							gridCell(w, kind, rs, size, sc, dir)
						}
					}
				}
			}})
		}
		kind := kind
		out = append(out, sched.Scenario{Name: "unblock/" + kind, Run: func(w *sched.W) {
			unblockCell(w, kind, "close")
			unblockCell(w, kind, "peer-closes")
			if !strings.HasPrefix(kind, "system-pty") {
				unblockCell(w, kind, "close-silent-peer")
				// an established session that stays quiet for longer than the socket timeout loses nothing
				sockTimeout = time.Second
				gridCell(w, kind, 64, 99, "idle", "down")
				sockTimeout = 10 * time.Second
			}
		}})
	}
	for _, k := range []string{"standard-shell", "telnet-loop", "system-pty"} {
		k := k
		out = append(out, sched.Scenario{Name: "e2e-cli/" + k, Run: func(w *sched.W) { e2eCLI(w, k, 0); e2eCLI(w, k, 16) }})
	}
	out = append(out, sched.Scenario{Name: "e2e-netconf", Run: e2eNetconf})
	for _, rs := range []int{1, 64} {
		for _, half := range []int{0, 1} {
			rs, half := rs, half
			out = append(out, sched.Scenario{Name: fmt.Sprintf("telnet-neg/rs=%d/%d", rs, half), Run: func(w *sched.W) {
				for cutAt := 1 + 4*half; cutAt <= 4+4*half && cutAt < 8; cutAt++ {
					telnetNegCell(w, rs, cutAt)
				}
			}})
		}
	}
	return out
}

func TestCheck(t *testing.T) {
	sched.Main(t, sched.Check{
		ID:    "C16",
		Level: "exploration",
		Rule:  "finite grid, every cell executed once over real OS objects: transport {standard ssh shell, standard ssh netconf subsystem (in-process x/crypto/ssh server), telnet over loopback TCP, system transport over a pty with a stand-in peer in raw mode (shell and netconf-subsystem flavours)} x read size {1,7,64,8192} x payload size {1,n-1,n,n+1,2n+1,3n} (bytes cycling through 0x00-0xff) x peer script {one write, two halves, byte at a time, write-pause-write} x direction {peer->client, client->peer, echo}; plus a telnet opening split into two TCP segments at every offset; plus a read blocked when the transport is force-closed (also after the peer has gone silent without closing anything: standard, telnet) / when the peer goes away, a session that stays quiet for longer than its socket timeout (standard, telnet), and end-to-end CLI (default read size and 16 bytes) and NETCONF sessions whose results must equal those obtained over the ideal fake transport; distinct = distinct cells",
		Assumptions: []string{
			"real sockets, ptys and crypto/ssh cannot run under the controlled scheduler: kernel scheduling and TCP/pty buffering are not enumerated, each cell is one run (stated limit)",
			"pty leg: the stand-in peer switches the pty to raw mode and prints READY before the session counts as up",
		},
		Scenarios: scenarios,
		Budget:    map[string]time.Duration{"quick": 8 * time.Minute, "thorough": 15 * time.Minute},
		Workers:   8,
	})
}

// C08 — each NETCONF call gets the reply to its own request.
package c08

import (
	"bytes"
	"fmt"
	"regexp"
	"strconv"
	"strings"
	"testing"
	"time"

	"github.com/scrapli/scrapligo/driver/netconf"
	"github.com/scrapli/scrapligo/driver/options"

	"verif/checks/cm"
	"verif/dev"
	"verif/sched"
)

// per-request behaviours
const (
	bNow       = 'n' // reply at once
	bErrSplit  = 'E' // reply at once: an rpc-error, chunked (1.1) with a boundary inside its message-id attribute
	bSubID     = 's' // reply at once, its data contains a subscription-id element (e.g. a <get> of the subscriptions state)
	bHashLine  = 'h' // reply at once, its data has lines that end in "##" without being the end marker (lines that begin with "##" are C02's open finding (b): a read ending right after such a "##" is taken for the end marker)
	bWriteFail = 'w' // the write of the return that follows this request fails once: the call errors, the server (1.0) answers anyway
	bCR        = 'r' // reply at once, its data contains CR LF (the channel strips CR: under 1.1 the reply no longer de-chunks -- C02's open finding -- but it is still this call's reply)
	bNever     = 'x' // never reply
	bEdge      = 'e' // reply released a swept offset after the call started, around the moment the call times out (either outcome is fine for that call)
	bLateA     = 'a' // reply released right after the call timed out (before the next request is written)
	bLateB     = 'b' // reply emitted by the server just before it answers the next request
	bLateC     = 'c' // reply emitted just after the server answered the next request
)

type scn struct {
	hist     string // one behaviour letter per request
	echo     bool
	version  string
	maxChunk int
	b        sched.Bounds
	edge     int  // behaviour e: release offset in half read delays
	big      bool // replies are longer than the channel's prompt search depth (1000 bytes)
}

func (s scn) name() string {
	n := fmt.Sprintf("hist=%s/echo=%v/v=%s/chunk=%d/pre=%d/env=%d", s.hist, s.echo, s.version, s.maxChunk, s.b.Pre, s.b.Env)
	if s.edge > 0 {
		n += fmt.Sprintf("/edge=%d", s.edge)
	}
	if s.big {
		n += "/big"
	}
	return n
}

var midRe = regexp.MustCompile(`message-id="(\d+)"`)

type callRes struct {
	err    error
	result string
	input  string
	dt     time.Duration
}

func scenario(s scn) sched.Scenario {
	return sched.Scenario{Name: s.name(), Run: func(w *sched.W) {
		rd := cm.Ms
		if s.maxChunk > 0 {
			rd = 0 // byte-wise presets: the reader does not pause between reads, so timeouts stay short
		}
		classes := []string{}
		if s.b.Pre > 0 {
			classes = []string{"nc.", "chan.read"}
		}
		cfg := cm.Cfg(classes...)
		cfg.NoPreAlt = s.b.Pre == 0
		cfg.HoldPoints = s.edge > 0
		cfg.NoIdleAlt = s.b.Env == 0
		timeout := 6*cm.Ms + cm.Ms/2
		cfg.Horizon = time.Duration(len(s.hist)+2) * 40 * cm.Ms
		w.Explore(cfg, s.b, func(e *sched.Env) {
			caps := []string{dev.Cap10}
			if s.version == "1.1" {
				caps = append(caps, dev.Cap11)
			}
			failed := map[int]bool{}
			srv := &dev.NCServer{Hello: dev.HelloDoc(caps, "7"), Echo: s.echo, EmitBefore: map[int][]int{}, EmitAfter: map[int][]int{}}
			for i := 0; i < len(s.hist); i++ {
				switch s.hist[i] {
				case bLateB:
					srv.EmitBefore[i+1] = append(srv.EmitBefore[i+1], i)
				case bLateC:
					srv.EmitAfter[i+1] = append(srv.EmitAfter[i+1], i)
				}
			}
			srv.Behave = func(i int, req dev.NCReq) (string, dev.NCBehavior) {
				pad := ""
				if s.big {
					pad = "<pad>" + strings.Repeat("0123456789", 105) + "</pad>"
				}
				if i < len(s.hist) && s.hist[i] == bCR {
					pad += "<t>x\r\ny\r\nz\r\n</t>"
				}
				if i < len(s.hist) && s.hist[i] == bHashLine {
					pad += "<motd>\nauthorized use only ##\nline two ##\nx##\n</motd>"
				}
				if i < len(s.hist) && s.hist[i] == bSubID {
					pad += "<subscriptions><subscription><subscription-id>7</subscription-id></subscription></subscriptions>"
				}
				if i < len(s.hist) && s.hist[i] == bErrSplit {
					pad += "<rpc-error><error-severity>error</error-severity><error-message>no</error-message></rpc-error>"
				}
				reply := `<rpc-reply xmlns="` + dev.NSBase + `" message-id="` + req.ID + `"><data><n>` + strconv.Itoa(i) + `</n>` + pad + `</data></rpc-reply>`
				if i >= len(s.hist) {
					return reply, dev.ReplyNow
				}
				switch s.hist[i] {
				case bNow, bCR, bSubID, bHashLine, bErrSplit, bWriteFail:
					return reply, dev.ReplyNow
				case bNever:
					return reply, dev.ReplyNever
				}
				return reply, dev.ReplyHeld
			}
			srv.Chunks = func(i int, b []byte) [][]byte {
				if i < len(s.hist) && s.hist[i] == bErrSplit {
					if k := bytes.Index(b, []byte(`message-id="`)); k >= 0 {
						return [][]byte{b[:k+14], b[k+14:]} // message-id="10|N"
					}
				}
				return [][]byte{b}
			}
			tr := dev.NewFake(e, srv)
			nonReturn := 0
			tr.FailWriteOnce = func(idx int, b []byte) bool {
				// the k-th request's payload write is the k-th write that is not a bare return; fail the return after it
				if string(b) != "\n" {
					nonReturn++
					return false
				}
				k := nonReturn - 2 // write 1 is the client hello
				if k >= 0 && k < len(s.hist) && s.hist[k] == bWriteFail && !failed[k] {
					failed[k] = true
					return true
				}
				return false
			}
			srv.Out = tr.Inject
			tr.MaxChunk = s.maxChunk
			tr.Cuts = s.b.Env > 0
			tr.NextEnd = srv.NextEnd
			var res []callRes
			var openErr error
			e.Go("client", func() {
				d, err := netconf.NewDriver("dev", append(cm.BaseOpts(tr, rd, timeout, 0), options.WithNetconfPreferredVersion(s.version))...)
				if err != nil {
					openErr = err
					return
				}
				if openErr = d.Open(); openErr != nil {
					return
				}
				e.OpenWindow()
				for i := 0; i < len(s.hist); i++ {
					t0 := e.Now()
					if s.hist[i] == bEdge {
						i := i
						// + Ms/10: never at the same virtual instant as a library timer
						time.AfterFunc(time.Duration(s.edge)*cm.Ms/2+cm.Ms/10, func() {
							srv.Release(i)
							e.Poke()
						})
					}
					r, err := d.GetConfig("running")
					cr := callRes{err: err, dt: e.Now() - t0}
					if r != nil {
						cr.result, cr.input = r.Result, string(r.Input)
					}
					res = append(res, cr)
					if s.hist[i] == bLateA {
						srv.Release(i)
					}
				}
				// one more call so that late replies of the last request have somebody to confuse
				t0 := e.Now()
				r, err := d.GetConfig("running")
				cr := callRes{err: err, dt: e.Now() - t0}
				if r != nil {
					cr.result, cr.input = r.Result, string(r.Input)
				}
				res = append(res, cr)
			})
			e.OnFinish(func() {
				if openErr != nil {
					e.Violate("c08:open-failed", "%v", openErr)
					return
				}
				if e.Verdict != "" {
					e.Violate("c08:"+e.Verdict, "session did not finish: %s", e.HangInfo)
					return
				}
				// ids as seen by the server: unique, strictly increasing from 101
				prev := 100
				for i, rq := range srv.Requests {
					id, _ := strconv.Atoi(rq.ID)
					if i == 0 && id != 101 {
						e.Violate("c08:first-id", "first request id %d", id)
					}
					if id <= prev {
						e.Violate("c08:ids-not-increasing", "request %d has id %d after %d", i, id, prev)
					}
					prev = id
				}
				if len(srv.Requests) != len(res) {
					e.Violate("c08:request-count", "server saw %d requests for %d calls", len(srv.Requests), len(res))
					return
				}
				seen := map[string]int{}
				for i, c := range res {
					own := srv.Requests[i].ID
					if m := midRe.FindStringSubmatch(c.input); c.err == nil && (m == nil || m[1] != own) {
						e.Violate("c08:input-id", "call %d reports Input %q but the server saw id %s", i, c.input, own)
					}
					beh := byte(bNow)
					if i < len(s.hist) {
						beh = s.hist[i]
					}
					e.Observe("call%d %c err=%s res=%q", i, beh, cm.ErrClass(c.err), c.result)
					if c.err == nil && (strings.Contains(c.result, "<rpc ") || strings.Contains(c.result, "<hello")) {
						e.Violate("c08:own-echo-returned-as-reply", "call %d (id %s, behaviour %c) returned the echo of the client's own bytes as its reply: %q", i, own, beh, c.result)
						continue
					}
					if c.err == nil && beh == bCR && c.result == "" {
						continue // handed over as this call's (undecodable) reply: not lost, not another call's
					}
					if c.err == nil {
						m := midRe.FindStringSubmatch(c.result)
						if m == nil {
							e.Violate("c08:result-without-id", "call %d (id %s) returned %q", i, own, c.result)
							continue
						}
						if m[1] != own {
							e.Violate("c08:foreign-reply", "call %d wrote id %s but got the reply to id %s: %q", i, own, m[1], c.result)
						}
						if !strings.Contains(c.result, "<n>"+strconv.Itoa(i)+"</n>") {
							e.Violate("c08:wrong-payload", "call %d got %q", i, c.result)
						}
						if k, dup := seen[m[1]]; dup {
							e.Violate("c08:reply-returned-twice", "reply %s returned to calls %d and %d", m[1], k, i)
						}
						seen[m[1]] = i
						if beh != bNow && beh != bEdge && beh != bCR && beh != bSubID && beh != bHashLine && beh != bErrSplit && beh != bWriteFail {
							e.Violate("c08:late-reply-accepted", "call %d (behaviour %c) should have timed out, got %q", i, beh, c.result)
						}
					} else {
						if beh == bWriteFail {
							continue // the call whose own write failed may report that
						}
						if beh == bNow || beh == bCR || beh == bSubID || beh == bHashLine || beh == bErrSplit {
							prevB := byte('-')
							if i > 0 && i-1 < len(s.hist) {
								prevB = s.hist[i-1]
							}
							e.Violate(fmt.Sprintf("c08:reply-lost:echo=%v:prev=%c", s.echo, prevB), "call %d was answered at once by the server but failed: %v", i, c.err)
						} else if cm.ErrClass(c.err) != "timeout" {
							e.Violate("c08:wrong-error", "call %d (behaviour %c): %v", i, beh, c.err)
						}
						if c.dt > timeout+3*cm.Ms {
							e.Violate("c08:slow-timeout", "call %d returned after %v (timeout %v)", i, c.dt, timeout)
						}
					}
				}
			})
		})
	}}
}

// twinScenario: two NETCONF sessions of one process at the same time; each call must get the reply its own server
// sent for its own message-id (state shared between drivers shows here).
func twinScenario(version string, echo bool, pre int) sched.Scenario {
	return sched.Scenario{Name: fmt.Sprintf("twin/v=%s/echo=%v/pre=%d", version, echo, pre), Run: func(w *sched.W) {
		cfg := cm.Cfg("nc.read", "chan.read.")
		cfg.NoPreAlt = pre == 0
		cfg.NoIdleAlt = true
		cfg.Horizon = 400 * cm.Ms
		w.Explore(cfg, sched.Bounds{Pre: pre}, func(e *sched.Env) {
			type sess struct {
				srv  *dev.NCServer
				res  []callRes
				open error
			}
			caps := []string{dev.Cap10}
			if version == "1.1" {
				caps = append(caps, dev.Cap11)
			}
			var ss []*sess
			for k := 0; k < 2; k++ {
				k := k
				s := &sess{}
				s.srv = &dev.NCServer{Hello: dev.HelloDoc(caps, strconv.Itoa(7+k)), Echo: echo}
				s.srv.Behave = func(i int, req dev.NCReq) (string, dev.NCBehavior) {
					return `<rpc-reply xmlns="` + dev.NSBase + `" message-id="` + req.ID + `"><data><srv>` + strconv.Itoa(k) + `</srv><n>` + strconv.Itoa(i) + `</n></data></rpc-reply>`, dev.ReplyNow
				}
				tr := dev.NewFake(e, s.srv)
				s.srv.Out = tr.Inject
				tr.NextEnd = s.srv.NextEnd
				ss = append(ss, s)
				name := "client"
				if k == 1 {
					name = "client2"
				}
				e.Go(name, func() {
					d, err := netconf.NewDriver("dev", append(cm.BaseOpts(tr, cm.Ms, 50*cm.Ms, 0), options.WithNetconfPreferredVersion(version))...)
					if err != nil {
						s.open = err
						return
					}
					if s.open = d.Open(); s.open != nil {
						return
					}
					for i := 0; i < 3; i++ {
						r, err := d.GetConfig("running")
						cr := callRes{err: err}
						if r != nil {
							cr.result, cr.input = r.Result, string(r.Input)
						}
						s.res = append(s.res, cr)
					}
				})
			}
			e.OnFinish(func() {
				if e.Verdict != "" {
					e.Violate("c08:"+e.Verdict, "twin sessions did not finish: %s", e.HangInfo)
					return
				}
				for k, s := range ss {
					if s.open != nil {
						e.Violate("c08:open-failed", "session %d: %v", k, s.open)
						continue
					}
					for i, c := range s.res {
						want := "<srv>" + strconv.Itoa(k) + "</srv><n>" + strconv.Itoa(i) + "</n>"
						e.Observe("s%d call%d err=%s", k, i, cm.ErrClass(c.err))
						if c.err != nil || !strings.Contains(c.result, want) || !strings.Contains(c.result, `message-id="`+strconv.Itoa(101+i)+`"`) {
							sig := "c08:twin-reply-lost-or-foreign"
							if strings.Contains(c.result, "<srv>"+strconv.Itoa(1-k)+"</srv>") {
								sig = "c08:twin-reply-of-other-session"
							}
							e.Violate(sig, "session %d call %d: err=%v result %q", k, i, c.err, c.result)
						}
					}
				}
			})
		})
	}}
}

func scenarios(tier string) []sched.Scenario {
	var out []sched.Scenario
	maxN := 3
	if tier == "thorough" {
		maxN = 4
	}
	var hists []string
	var gen func(h string)
	gen = func(h string) {
		if h != "" {
			hists = append(hists, h)
		}
		if len(h) == maxN {
			return
		}
		for _, b := range []byte{bNow, bNever, bLateA, bLateB, bLateC} {
			gen(h + string(b))
		}
	}
	gen("")
	for _, h := range hists {
		for _, echo := range []bool{false, true} {
			for _, v := range []string{"1.0", "1.1"} {
				for _, mc := range []int{0, 1, 7} {
					if mc == 1 && len(h) > 2 && tier != "thorough" {
						continue
					}
					env := 0
					if mc == 0 && len(h) <= 2 {
						env = 1
					}
					if tier == "thorough" && len(h) <= 3 && mc != 1 {
						env = 1
					}
					out = append(out, scenario(scn{h, echo, v, mc, sched.Bounds{Env: env}, 0, false}))
				}
				if len(h) <= 2 {
					pre := 1
					if tier == "thorough" {
						pre = 2
					}
					out = append(out, scenario(scn{h, echo, v, 0, sched.Bounds{Pre: pre, Env: 0}, 0, false}))
				}
			}
		}
	}
	// rpc-error replies chunked inside their message-id, replies that mention a subscription-id, a lost return write
	for _, h := range []string{"E", "nE", "En", "s", "ns", "sn", "nsn", "wn", "nwn"} {
		for _, echo := range []bool{false, true} {
			for _, v := range []string{"1.0", "1.1"} {
				if strings.Contains(h, "w") && v == "1.1" {
					continue // the 1.1 server model needs the return to complete the message: nothing would be answered
				}
				out = append(out, scenario(scn{hist: h, echo: echo, version: v, b: sched.Bounds{Env: 0}}))
			}
		}
	}
	// replies whose data contains carriage returns, between ordinary ones
	for _, h := range []string{"r", "nr", "rn", "nrn", "arn"} {
		for _, echo := range []bool{false, true} {
			for _, v := range []string{"1.0", "1.1"} {
				out = append(out, scenario(scn{hist: h, echo: echo, version: v, b: sched.Bounds{Env: 0}}))
			}
		}
	}
	// replies whose data has lines ending in "##": every single cut
	for _, h := range []string{"h", "nh", "hn"} {
		for _, echo := range []bool{false, true} {
			for _, v := range []string{"1.0", "1.1"} {
				out = append(out, scenario(scn{hist: h, echo: echo, version: v, b: sched.Bounds{Env: 1}}))
			}
		}
	}
	// big replies: every single cut of echo + reply
	for _, h := range []string{"n", "nn", "an"} {
		for _, echo := range []bool{false, true} {
			for _, v := range []string{"1.0", "1.1"} {
				if tier != "thorough" && (!echo || h == "an" || h == "nn" && v == "1.0") {
					continue
				}
				out = append(out, scenario(scn{hist: h, echo: echo, version: v, b: sched.Bounds{Env: 1}, big: true}))
			}
		}
	}
	// two sessions at once
	for _, v := range []string{"1.0", "1.1"} {
		for _, echo := range []bool{false, true} {
			out = append(out, twinScenario(v, echo, 1))
		}
	}
	// replies that land around the expiry of their call's timer, with the reply poller held at its hand-over
	for _, h := range []string{"e", "en", "ee"} {
		for _, echo := range []bool{false, true} {
			for _, v := range []string{"1.0", "1.1"} {
				for k := 5; k <= 13; k++ {
					if tier != "thorough" && (len(h) > 1 && (echo || v == "1.0")) {
						continue
					}
					out = append(out, scenario(scn{h, echo, v, 0, sched.Bounds{Pre: 2, Env: 0}, k, false}))
				}
			}
		}
	}
	return out
}

func TestCheck(t *testing.T) {
	sched.Main(t, sched.Check{
		ID:    "C08",
		Level: "model_checking",
		Rule: "history = one behaviour per request over {reply now, never, late: released after the timed-out call / emitted before the next reply / emitted after the next reply; plus reply variants: rpc-error chunked inside its message-id, data mentioning a subscription-id, data with CR LF, data lines ending in ## (every single cut); plus a request whose return write fails once}, all histories up to the length bound x {echo on, off} x {1.0, 1.1} x read presets {whole message, 1 byte, 7 bytes} (+ replies of 1.1 kB with every single cut); a read never spans two server messages; " +
			"per scenario all executions within the deviation bound (extra cuts/holds; thread switches among channel reader, NETCONF reader, RPC poller, caller); oracle = message-id bookkeeping against the server model's request log",
		Assumptions: []string{"the server model echoes (when echo is on) every byte before answering", "timeouts 6.5x read delay; late replies are released at three phases relative to the next request"},
		Scenarios:   scenarios,
		Budget:      map[string]time.Duration{"quick": 5 * time.Minute, "thorough": 60 * time.Minute},
	})
}

// C11 — credentials never reach the logs.
package c11

import (
	"bytes"
	"fmt"
	"github.com/scrapli/scrapligo/driver/netconf"
	"strings"
	"sync"
	"testing"
	"time"

	"github.com/scrapli/scrapligo/channel"
	"github.com/scrapli/scrapligo/driver/generic"
	"github.com/scrapli/scrapligo/driver/network"
	"github.com/scrapli/scrapligo/driver/opoptions"
	"github.com/scrapli/scrapligo/driver/options"
	"github.com/scrapli/scrapligo/logging"
	"github.com/scrapli/scrapligo/platform"
	"github.com/scrapli/scrapligo/transport"
	"github.com/scrapli/scrapligo/util"

	"verif/checks/cm"
	"verif/dev"
	"verif/sched"
)

type secrets struct{ name, pass, pp, enable string }

var secretSets = []secrets{
	{"plain", "p4ssW0RDx", "k3yPHRASEy", "en4bleSECz"},
	{"fmtverbs", "pw%s%d%!v%%", "pp%v%!(EXTRA)%q", "en%x%c%!d"},
	{"regexmeta", `pw.*+?()[]\{}|^$`, `pp(a|b)[c]*\d+?`, `en\.^$[x-z]+`},
}

type capt struct {
	mu   sync.Mutex
	msgs []string
	clog bytes.Buffer
}

func (c *capt) log(a ...interface{}) {
	c.mu.Lock()
	defer c.mu.Unlock()
	c.msgs = append(c.msgs, fmt.Sprint(a...))
}

func (c *capt) Write(b []byte) (int, error) {
	c.mu.Lock()
	defer c.mu.Unlock()
	return c.clog.Write(b)
}

type fam struct {
	family   string
	variant  string
	level    string
	sec      secrets
	maxChunk int
	env      int
}

func (f fam) name() string {
	return fmt.Sprintf("%s/%s/level=%s/secret=%s/chunk=%d/env=%d", f.family, f.variant, f.level, f.sec.name, f.maxChunk, f.env)
}

func strp(s string) *string { return &s }

// onTermLen, when set, runs when the device receives "terminal length 0" (a later, secret-free step of an on-open
// sequence that can be made to fail)
var onTermLen func()

// loginDevice: telnet or ssh front end in front of a two level device; rej = rejected attempts.
func loginDevice(kind string, s secrets, rej int, askPP bool, escBehaviour string, onSecret func()) *dev.CLIDevice {
	attempts := 0
	shell := func(_ *dev.CLIDevice, line string) dev.Reply {
		switch line {
		case "":
			return dev.Reply{}
		case "show x":
			return dev.Reply{Out: "x out"}
		case "terminal length 0":
			if onTermLen != nil {
				onTermLen()
			}
			return dev.Reply{}
		case "enable":
			switch escBehaviour {
			case "asks-grants", "asks-refuses", "asks-eof", "asks-eio", "asks-silent", "asks-write-error":
				return dev.Reply{Raw: strp("Password: "), Next: "enable-pw"}
			case "grants":
				return dev.Reply{Next: "priv"}
			}
			return dev.Reply{Out: "% Authorization failed"}
		case "copy run start":
			return dev.Reply{Raw: strp("Destination key passphrase: "), Next: "ask-secret"}
		}
		return dev.Reply{Out: "% Unknown", Wrong: true}
	}
	modes := []*dev.Mode{
		{Name: "exec", Prompt: "router>", OnLine: shell},
		{Name: "priv", Prompt: "router#", OnLine: shell},
		{Name: "enable-pw", Prompt: "Password: ", NoEcho: true, OnLine: func(_ *dev.CLIDevice, line string) dev.Reply {
			if escBehaviour == "asks-grants" && line == s.enable {
				return dev.Reply{Next: "priv"}
			}
			if line == s.enable && onSecret != nil {
				onSecret() // the session dies (or falls silent) right after the secret arrived
			}
			return dev.Reply{Out: "% Access denied", Next: "exec"}
		}},
		{Name: "ask-secret", Prompt: "", NoEcho: true, OnLine: func(_ *dev.CLIDevice, line string) dev.Reply {
			return dev.Reply{Out: "copied", Next: "exec"}
		}},
		{Name: "ask-user", Prompt: "Username: ", OnLine: func(_ *dev.CLIDevice, line string) dev.Reply {
			return dev.Reply{Raw: strp("Password: "), Next: "ask-pass"}
		}},
		{Name: "ask-pass", Prompt: "Password: ", NoEcho: true, OnLine: func(_ *dev.CLIDevice, line string) dev.Reply {
			if attempts < rej {
				attempts++
				if kind == "telnet" {
					return dev.Reply{Raw: strp("% Login invalid\n\nUsername: "), Next: "ask-user"}
				}
				return dev.Reply{Raw: strp("Password: ")}
			}
			return dev.Reply{Raw: strp("Welcome\nrouter>"), Next: "exec"}
		}},
		{Name: "ask-pp", Prompt: "Enter passphrase for key '/k': ", NoEcho: true, OnLine: func(_ *dev.CLIDevice, line string) dev.Reply {
			return dev.Reply{Raw: strp("Password: "), Next: "ask-pass"}
		}},
	}
	start := "exec"
	switch {
	case kind == "telnet":
		start = "ask-user"
	case kind == "ssh" && askPP:
		start = "ask-pp"
	case kind == "ssh":
		start = "ask-pass"
	}
	d := dev.NewCLI(start, modes...)
	if kind == "" {
		d.NoFirst = true
	}
	return d
}

func levels(auth bool) map[string]*network.PrivilegeLevel {
	lv := cm.StdLevels(auth)
	delete(lv, "configuration")
	return lv
}

func scenario(f fam) sched.Scenario {
	return sched.Scenario{Name: f.name(), Run: func(w *sched.W) {
		cfg := cm.Cfg()
		cfg.NoPreAlt, cfg.NoIdleAlt = true, f.env == 0
		cfg.Horizon = 20 * time.Second
		rd := cm.Ms
		if f.maxChunk > 0 {
			rd = 0
		}
		w.Explore(cfg, sched.Bounds{Env: f.env}, func(e *sched.Env) {
			c := &capt{}
			li, _ := logging.NewInstance(logging.WithLevel(f.level), logging.WithLogger(c.log))
			var d *dev.CLIDevice
			var tr *dev.FakeTransport
			var impl transport.Implementation
			mk := func(kind string, rej int, askPP bool, esc string) {
				d = loginDevice(kind, f.sec, rej, askPP, esc, func() {
					switch esc {
					case "asks-eof":
						tr.Loss, tr.LossAt = dev.LossEOF, tr.Sent()
					case "asks-eio":
						tr.Loss, tr.LossAt = dev.LossEIO, tr.Sent()
					case "asks-silent":
						tr.StallAt = tr.Sent()
					}
				})
				tr = dev.NewFake(e, d)
				if esc == "asks-write-error" {
					// the transport breaks on exactly the write that carries the secret
					tr.FailWrite = func(b []byte) bool { return strings.Contains(string(b), f.sec.enable) }
				}
				tr.MaxChunk, tr.Cuts = f.maxChunk, f.env > 0
				switch kind {
				case "telnet":
					impl = dev.FakeTelnet{FakeTransport: tr}
				case "ssh":
					impl = dev.FakeSSH{FakeTransport: tr, Args: &transport.SSHArgs{PrivateKeyPassPhrase: f.sec.pp}}
				default:
					impl = tr
				}
			}
			base := func() []util.Option {
				return append(cm.BaseOpts(impl, rd, 30*cm.Ms, 0), options.WithLogger(li), options.WithChannelLog(c),
					options.WithAuthUsername("admin"), options.WithAuthPassword(f.sec.pass))
			}
			var ran, setupErr error
			e.Go("client", func() {
				switch f.family {
				case "telnet-login", "ssh-login":
					kind := strings.TrimSuffix(f.family, "-login")
					rej := map[string]int{"ok": 0, "retry": 1, "fail": 3, "stall": 0, "write-error": 0}[f.variant]
					mk(kind, rej, kind == "ssh", "")
					if f.variant == "stall" {
						tr.StallAt = 20
					}
					if f.variant == "write-error" {
						tr.WriteErrAt = 2
					}
					g, err := generic.NewDriver("dev", base()...)
					if err != nil {
						setupErr = err
						return
					}
					ran = g.Open()
					if ran == nil {
						_, _ = g.SendCommand("show x")
						_ = g.Close()
					}
				case "escalate":
					mk("", 0, false, f.variant)
					n, err := network.NewDriver("dev", append(base(), options.WithPrivilegeLevels(levels(true)), options.WithDefaultDesiredPriv("exec"), options.WithAuthSecondary(f.sec.enable))...)
					if err != nil {
						setupErr = err
						return
					}
					if setupErr = n.Open(); setupErr != nil {
						return
					}
					ran = n.AcquirePriv("privilege-exec")
					_, _ = n.SendCommand("show x")
					_ = n.Close()
				case "onopen-escalate":
					// the escalation runs inside the driver's on-open function, whose error Open reports and logs
					mk("", 0, false, f.variant)
					n, err := network.NewDriver("dev", append(base(), options.WithPrivilegeLevels(levels(true)), options.WithDefaultDesiredPriv("privilege-exec"), options.WithAuthSecondary(f.sec.enable),
						options.WithNetworkOnOpen(func(d *network.Driver) error { return d.AcquirePriv("privilege-exec") }))...)
					if err != nil {
						setupErr = err
						return
					}
					ran = n.Open()
					if ran == nil {
						_, _ = n.SendCommand("show x")
						_ = n.Close()
					}
				case "system-key":
					// the system transport refuses a passphrase-protected key: whatever error it builds is logged by
					// the channel ("error opening channel ...") and must not spell out the ssh arguments' passphrase
					ko := []util.Option{options.WithTransportType("system"), options.WithSystemTransportOpenBin("/nonexistent/ssh"),
						options.WithLogger(li), options.WithChannelLog(c), options.WithAuthUsername("admin"), options.WithTimeoutOps(30 * cm.Ms)}
					if strings.HasSuffix(f.variant, "-two-options") {
						ko = append(ko, options.WithAuthPrivateKey("/k", ""), options.WithAuthPassphrase(f.sec.pp))
					} else {
						ko = append(ko, options.WithAuthPrivateKey("/k", f.sec.pp))
					}
					if strings.HasPrefix(f.variant, "netconf") {
						nd, err := netconf.NewDriver("dev", ko...)
						if err != nil {
							setupErr = err
							return
						}
						ran = nd.Open()
					} else {
						g, err := generic.NewDriver("dev", ko...)
						if err != nil {
							setupErr = err
							return
						}
						ran = g.Open()
					}
					if ran == nil {
						setupErr = fmt.Errorf("system transport opened with a passphrase-protected key and a missing ssh binary")
					}
				case "interactive":
					mk("", 0, false, "grants")
					events := []*channel.SendInteractiveEvent{
						{ChannelInput: "copy run start", ChannelResponse: "passphrase:"},
						{ChannelInput: f.sec.pp, ChannelResponse: "", HideInput: true},
					}
					if f.variant == "network" {
						n, err := network.NewDriver("dev", append(base(), options.WithPrivilegeLevels(levels(false)), options.WithDefaultDesiredPriv("exec"))...)
						if err != nil {
							setupErr = err
							return
						}
						if setupErr = n.Open(); setupErr != nil {
							return
						}
						_, ran = n.SendInteractive(events, opoptions.WithPrivilegeLevel("exec"))
						_ = n.Close()
					} else {
						g, err := generic.NewDriver("dev", base()...)
						if err != nil {
							setupErr = err
							return
						}
						if setupErr = g.Open(); setupErr != nil {
							return
						}
						_, ran = g.SendInteractive(events)
						_ = g.Close()
					}
				case "platform-onopen":
					mk("", 0, false, "asks-grants")
					onTermLen = nil
					switch f.variant {
					case "redacted-write-fails":
						tr.FailWrite = func(b []byte) bool { return strings.Contains(string(b), f.sec.enable) }
					case "later-step-stalls":
						onTermLen = func() { tr.StallAt = tr.Sent() }
					}
					yaml := `---
platform-type: 'verif'
default:
  driver-type: 'network'
  privilege-levels:
    exec:
      name: 'exec'
      pattern: '(?im)^router>$'
      previous-priv:
      deescalate:
      escalate:
      escalate-auth: false
      escalate-prompt:
    privilege-exec:
      name: 'privilege-exec'
      pattern: '(?im)^router#$'
      previous-priv: 'exec'
      deescalate: 'disable'
      escalate: 'enable'
      escalate-auth: true
      escalate-prompt: '(?im)^password:\s?$'
  default-desired-privilege-level: 'privilege-exec'
`
					seq := fmt.Sprintf(`    - operation: 'channel.write'
      input: 'enable'
    - operation: 'channel.return'
    - operation: 'channel.write'
      input: %q
      redacted: %s
    - operation: 'channel.return'
    - operation: 'acquire-priv'
    - operation: 'driver.send-command'
      command: 'terminal length 0'
`, f.sec.enable, map[string]string{"spelled-True": "True", "spelled-TRUE": "TRUE"}[f.variant]+map[bool]string{true: "true"}[!strings.HasPrefix(f.variant, "spelled-")])
					var p *platform.Platform
					var err error
					popts := append(base(), options.WithAuthSecondary(f.sec.enable))
					switch f.variant {
					case "variant-own-sequence":
						// the variant brings the sequence with the redacted write, the default has a harmless one
						yaml += "  network-on-open:\n    - operation: 'acquire-priv'\nvariants:\n  v1:\n    network-on-open:\n" + indent(seq, "  ")
						p, err = platform.NewPlatformVariant([]byte(yaml), "v1", "dev", popts...)
					case "variant-inherits-sequence":
						yaml += "  network-on-open:\n" + seq + "variants:\n  v1:\n    failed-when-contains:\n      - 'nope'\n"
						p, err = platform.NewPlatformVariant([]byte(yaml), "v1", "dev", popts...)
					default:
						yaml += "  network-on-open:\n" + seq
						p, err = platform.NewPlatform([]byte(yaml), "dev", popts...)
					}
					if err != nil {
						setupErr = err
						return
					}
					n, err := p.GetNetworkDriver()
					if err != nil {
						setupErr = err
						return
					}
					ran = n.Open()
					if ran == nil {
						_, _ = n.SendCommand("show x")
						_ = n.Close()
					}
				}
			})
			e.OnFinish(func() {
				if setupErr != nil || e.Verdict != "" {
					e.Violate("c11:session-failed", "%v %s %s", setupErr, e.Verdict, e.HangInfo)
					return
				}
				c.mu.Lock()
				defer c.mu.Unlock()
				all := strings.Join(c.msgs, "\n")
				e.Observe("msgs=%d clog=%d ran=%s", len(c.msgs), c.clog.Len(), cm.ErrClass(ran))
				for kind, s := range map[string]string{"password": f.sec.pass, "passphrase": f.sec.pp, "secondary": f.sec.enable} {
					if strings.Contains(all, s) {
						var where string
						for _, m := range c.msgs {
							if strings.Contains(m, s) {
								where = m
								break
							}
						}
						e.Violate("c11:"+kind+"-in-log", "level %s: %q", f.level, where)
					}
					if strings.Contains(c.clog.String(), s) {
						e.Violate("c11:"+kind+"-in-channel-log", "channel log contains the %s", kind)
					}
				}
				if d == nil {
					return // no device in this family
				}
				// the secrets did reach the device (the run is not vacuous)
				sent := false
				for _, l := range d.Lines {
					if l.Line == f.sec.pass || l.Line == f.sec.pp || l.Line == f.sec.enable {
						sent = true
					}
				}
				faulty := f.variant == "stall" || f.variant == "write-error" || f.variant == "asks-eof" || f.variant == "asks-eio" || f.variant == "asks-silent" || f.variant == "asks-write-error" || f.variant == "redacted-write-fails" || f.variant == "later-step-stalls"
				if !sent && f.variant != "grants" && f.variant != "refuses" && !faulty {
					e.Violate("c11:vacuous", "no secret ever reached the device in this scenario (lines %v)", d.Lines)
				}
				if f.level == "debug" && sent && !strings.Contains(all, "redacted") {
					e.Violate("c11:no-redacted-marker", "debug log has no 'redacted' entry although a secret was written")
				}
				if f.level == "debug" && !faulty && !strings.Contains(all, "channel write") {
					e.Violate("c11:logger-not-attached", "debug log has no channel write entries")
				}
			})
		})
	}}
}

func scenarios(tier string) []sched.Scenario {
	var out []sched.Scenario
	type fv struct{ f, v string }
	var fvs []fv
	for _, v := range []string{"ok", "retry", "fail", "stall", "write-error"} {
		fvs = append(fvs, fv{"telnet-login", v}, fv{"ssh-login", v})
	}
	for _, v := range []string{"asks-grants", "grants", "refuses", "asks-refuses", "asks-eof", "asks-eio", "asks-silent", "asks-write-error"} {
		fvs = append(fvs, fv{"escalate", v})
	}
	for _, v := range []string{"asks-grants", "asks-refuses", "asks-eof", "asks-eio", "asks-silent", "asks-write-error"} {
		fvs = append(fvs, fv{"onopen-escalate", v})
	}
	for _, v := range []string{"generic", "generic-two-options", "netconf", "netconf-two-options"} {
		fvs = append(fvs, fv{"system-key", v})
	}
	fvs = append(fvs, fv{"interactive", "generic"}, fv{"interactive", "network"}, fv{"platform-onopen", "redacted-write"}, fv{"platform-onopen", "redacted-write-fails"}, fv{"platform-onopen", "later-step-stalls"}, fv{"platform-onopen", "variant-own-sequence"}, fv{"platform-onopen", "variant-inherits-sequence"}, fv{"platform-onopen", "spelled-True"}, fv{"platform-onopen", "spelled-TRUE"})
	for _, x := range fvs {
		for _, lvl := range []string{"debug", "info", "critical"} {
			for _, sec := range secretSets {
				for _, mc := range []int{0, 1} {
					env := 0
					if mc == 0 && (tier == "thorough" || lvl == "debug") {
						env = 1
					}
					out = append(out, scenario(fam{x.f, x.v, lvl, sec, mc, env}))
				}
			}
		}
	}
	return out
}

func TestCheck(t *testing.T) {
	sched.Main(t, sched.Check{
		ID:          "C11",
		Level:       "exploration",
		Rule:        "invariant monitor over every execution of: telnet and ssh in-channel login {accepted, one rejection, three rejections, device silent at the password prompt, write error on the credential write}, privilege escalation, called directly and from the driver's on-open function {asks then grants, grants, refuses, asks then refuses, asks then the stream ends / fails / falls silent right after the secret arrived, asks then the write of the secret itself fails}, interactive send with a hidden secret (generic and network), platform on-open with a redacted write (succeeding, failing on that write, a later step of the sequence timing out, the sequence defined by a platform variant or inherited by one, the flag spelled True / TRUE), system transport refusing a passphrase-protected key (generic and NETCONF); x log level {debug, info, critical} x secret shape {plain, format verbs, regex metacharacters} x read preset {whole, 1 byte} (+ every single extra cut/hold at debug level); a capturing logger and a channel-log writer are attached; distinct = distinct (family, variant, level, secret, schedule)",
		Assumptions: []string{"the device never echoes a secret (precondition of the property)", "non-vacuity is checked: the secret reached the device, the debug log carries 'redacted' and ordinary writes"},
		Scenarios:   scenarios,
		Budget:      map[string]time.Duration{"quick": 4 * time.Minute, "thorough": 20 * time.Minute},
	})
}

// indent prefixes every non-empty line of s with p.
func indent(s, p string) string {
	lines := strings.Split(s, "\n")
	for i, l := range lines {
		if l != "" {
			lines[i] = p + l
		}
	}
	return strings.Join(lines, "\n")
}

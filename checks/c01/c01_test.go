// C01 — CLI exchanges return exactly the device's output, aligned per command.
package c01

import (
	"fmt"
	"regexp"
	"strings"
	"testing"
	"time"

	"github.com/scrapli/scrapligo/driver/generic"
	"github.com/scrapli/scrapligo/driver/network"
	"github.com/scrapli/scrapligo/driver/opoptions"
	"github.com/scrapli/scrapligo/driver/options"
	"github.com/scrapli/scrapligo/util"

	"verif/checks/cm"
	"verif/dev"
	"verif/sched"
)

const (
	cmd1 = `show alpha | i ^Gi[0-9]+\.(1|2)` // regex metacharacters and a pipe: the echo is matched as bytes, never as a pattern
	cmd2 = "show all"                        // ends in a doubled character: a fuzzy echo matcher that counts one echoed byte twice is exposed by a cut before the last byte
)

type outv struct{ name, text string }

func longOut(n int) string {
	var sb strings.Builder
	for i := 0; i < n; i++ {
		fmt.Fprintf(&sb, "row %02d abcdefgh\n", i)
	}
	return strings.TrimSuffix(sb.String(), "\n")
}

var outs = []outv{
	{"line", "one line"},
	{"empty", ""},
	{"blanks", "  \nline1  \n\nline2 \n\n"},
	{"ansi", "\x1b[32mgreen\x1b[0m text\x1b[K\nplain \x1b[1;31mred\x1b[0m"},
	{"crlf", "l1\nl2 \nl3"},
	{"long", longOut(12)},
	{"othercmd", "see show all for more\nshow alpha is done"},
	// a line that is not prompt-like as a whole but whose last word is: only a search window that starts at a
	// line boundary keeps it from being taken for the prompt; enough lines follow it for the window to slide over it
	{"hashword", "interface Gi1\n description CUST:acme/id:4471#\n mtu 1500\n ip address 10.0.0.1/24\n no shutdown\nlast line of it"},
}

type conf struct {
	drv       string // generic | network
	readSize  int
	depthMode int // 0 = minimal legal, 1 = 2x, 2 = default 1000
	keep      bool
	match     string // fuzzy | exact | wrap
	delay     time.Duration
	promptSp  bool // prompt has a trailing space
}

func (c conf) String() string {
	return fmt.Sprintf("%s/rs=%d/depth=%d/keep=%v/%s/delay=%v/psp=%v", c.drv, c.readSize, c.depthMode, c.keep, c.match, c.delay, c.promptSp)
}

var promptRe = regexp.MustCompile(`(?im)^[a-z\d.\-@()/:]{1,48}[#>$]\s*$`)

func maxLine(s string) int {
	m := 0
	for _, l := range strings.Split(s, "\n") {
		if len(l) > m {
			m = len(l)
		}
	}
	return m
}

type opRes struct {
	op      byte
	results []string
	inputs  []string
	err     error
	prompt  string
}

func scenario(prog string, o1, o2 outv, c conf, b sched.Bounds, cuts bool, tag string) sched.Scenario {
	name := fmt.Sprintf("%s/prog=%s/o1=%s/o2=%s/%s/env=%d/pre=%d", tag, prog, o1.name, o2.name, c, b.Env, b.Pre)
	prompt := "router#"
	cmd1, cmd2 := cmd1, cmd2
	if tag == "allseg" {
		prompt, cmd1, cmd2 = "r#", "s1", "s2"
	}
	if c.promptSp {
		prompt += " "
	}
	crlf := o1.name == "crlf" || o2.name == "crlf"
	depth := 1000
	ml := maxLine(o1.text)
	if m := maxLine(o2.text); m > ml {
		ml = m
	}
	switch c.depthMode {
	case 0:
		depth = ml + len(prompt) + 4
	case 1:
		depth = 2 * (ml + len(prompt) + 4)
	}
	return sched.Scenario{Name: name, Run: func(w *sched.W) {
		classes := []string{}
		if b.Pre > 0 {
			classes = []string{"chan.read", "chan.Read", "q."}
		}
		cfg := cm.Cfg(classes...)
		cfg.NoPreAlt = b.Pre == 0
		cfg.NoIdleAlt = tag == "allseg" // every segmentation, no holds (holds are unbounded otherwise)
		w.Explore(cfg, b, func(e *sched.Env) {
			d := dev.NewCLI("exec", &dev.Mode{Name: "exec", Prompt: prompt, OnLine: dev.Table(map[string]dev.Reply{
				cmd1: {Out: o1.text}, cmd2: {Out: o2.text},
			})})
			d.CRLF = crlf
			if c.match == "wrap" {
				d.Wrap, d.WrapEvery = " \r", 3 // neither command length is a multiple of 3: no wrap bytes trail the echo
			}
			tr := dev.NewFake(e, d)
			tr.Cuts = cuts
			tr.NoCut = dev.InEscape
			opts := cm.BaseOpts(tr, c.delay, 20*time.Second, c.readSize)
			opts = append(opts, options.WithPromptSearchDepth(depth))
			var opo []util.Option
			if c.keep {
				opo = append(opo, opoptions.WithNoStripPrompt())
			}
			if c.match == "exact" {
				opo = append(opo, opoptions.WithExactMatchInput())
			}
			var res []opRes
			e.Go("client", func() {
				var g *generic.Driver
				var n *network.Driver
				var err error
				if c.drv == "network" {
					opts = append(opts, options.WithPrivilegeLevels(map[string]*network.PrivilegeLevel{
						"exec": {Name: "exec", Pattern: `(?im)^r(outer)?#\s?$`},
					}), options.WithDefaultDesiredPriv("exec"))
					n, err = network.NewDriver("dev", opts...)
					if err == nil {
						g = n.Driver
					}
				} else {
					g, err = generic.NewDriver("dev", opts...)
				}
				if err != nil {
					e.Violate("c01:new-driver", "%v", err)
					return
				}
				if c.drv == "network" {
					err = n.Open()
				} else {
					err = g.Open()
				}
				if err != nil {
					e.Violate("c01:open-failed", "%v", err)
					return
				}
				for i := 0; i < len(prog); i++ {
					r := opRes{op: prog[i]}
					switch prog[i] {
					case 'A', 'B':
						cmd := cmd1
						if prog[i] == 'B' {
							cmd = cmd2
						}
						if n != nil {
							rr, err := n.SendCommand(cmd, opo...)
							r.err = err
							if rr != nil {
								r.results, r.inputs = []string{rr.Result}, []string{rr.Input}
								if string(rr.RawResult) != rr.Result {
									e.Violate("c01:raw-result-differs", "raw %q result %q", rr.RawResult, rr.Result)
								}
							}
						} else {
							rr, err := g.SendCommand(cmd, opo...)
							r.err = err
							if rr != nil {
								r.results, r.inputs = []string{rr.Result}, []string{rr.Input}
								if string(rr.RawResult) != rr.Result {
									e.Violate("c01:raw-result-differs", "raw %q result %q", rr.RawResult, rr.Result)
								}
							}
						}
					case 'M':
						var m interface {
							JoinedResult() string
						}
						_ = m
						if n != nil {
							mr, err := n.SendCommands([]string{cmd1, cmd2}, opo...)
							r.err = err
							if mr != nil {
								for _, rr := range mr.Responses {
									r.results = append(r.results, rr.Result)
									r.inputs = append(r.inputs, rr.Input)
								}
							}
						} else {
							mr, err := g.SendCommands([]string{cmd1, cmd2}, opo...)
							r.err = err
							if mr != nil {
								for _, rr := range mr.Responses {
									r.results = append(r.results, rr.Result)
									r.inputs = append(r.inputs, rr.Input)
								}
							}
						}
					case 'P':
						var p string
						p, r.err = g.GetPrompt()
						r.prompt = p
					}
					res = append(res, r)
					if r.err != nil {
						break
					}
				}
			})
			e.OnFinish(func() {
				if e.Verdict != "" {
					e.Violate("c01:"+e.Verdict, "session did not finish: %s", e.HangInfo)
					return
				}
				keepP := ""
				if c.keep {
					keepP = prompt
				}
				exp := map[string]string{cmd1: cm.NormOutput(o1.text, keepP), cmd2: cm.NormOutput(o2.text, keepP)}
				var wantLines []string
				var wantWrites []string
				for i, r := range res {
					e.Observe("%c:%q/%q/%v", r.op, r.results, r.prompt, cm.ErrClass(r.err))
					if r.err != nil {
						e.Violate("c01:op-error", "op %d (%c) failed: %v", i, r.op, r.err)
						return
					}
					var cmds []string
					switch r.op {
					case 'A':
						cmds = []string{cmd1}
					case 'B':
						cmds = []string{cmd2}
					case 'M':
						cmds = []string{cmd1, cmd2}
					case 'P':
						// GetPrompt is only history here: its value is not part of C01 (it has no echo
						// to resynchronise on, so it may return bytes left over by Open)
						if r.prompt == "" {
							e.Violate("c01:getprompt-empty", "op %d: empty prompt without error", i)
						}
						wantWrites = append(wantWrites, "\n")
						continue
					}
					if len(r.results) != len(cmds) {
						e.Violate("c01:response-count", "op %d (%c): %d responses for %d commands", i, r.op, len(r.results), len(cmds))
						return
					}
					for k, cmd := range cmds {
						wantLines = append(wantLines, cmd)
						wantWrites = append(wantWrites, cmd, "\n")
						if r.inputs[k] != cmd {
							e.Violate("c01:input-misaligned", "op %d response %d: Input %q want %q", i, k, r.inputs[k], cmd)
						}
						if r.results[k] != exp[cmd] {
							sig := "c01:result-mismatch"
							other := cmd2
							if cmd == cmd2 {
								other = cmd1
							}
							if exp[other] != exp[cmd] && exp[other] != "" && strings.Contains(r.results[k], exp[other]) {
								sig = "c01:result-has-other-exchange"
							}
							e.Violate(sig, "op %d (%c) response %d for %q: got %q want %q", i, r.op, k, cmd, r.results[k], exp[cmd])
						}
					}
				}
				if len(res) != len(prog) {
					e.Violate("c01:incomplete", "ran %d of %d ops", len(res), len(prog))
					return
				}
				got := d.NonEmptyLines()
				if strings.Join(got, "|") != strings.Join(wantLines, "|") {
					e.Violate("c01:device-lines", "device received %q want %q", got, wantLines)
				}
				if c.drv == "generic" {
					var gw []string
					for _, wr := range tr.Writes {
						gw = append(gw, string(wr.Data))
					}
					if strings.Join(gw, "|") != strings.Join(wantWrites, "|") {
						e.Violate("c01:write-sequence", "writes %q want %q", gw, wantWrites)
					}
				}
				// the return of a command is written only after its echo was delivered
				for i := 1; i < len(tr.Writes); i++ {
					wr, prev := tr.Writes[i], tr.Writes[i-1]
					if string(wr.Data) == "\n" && string(prev.Data) != "\n" {
						if wr.Delivered < prev.SentAfter {
							e.Violate("c01:return-before-echo", "return written when %d bytes delivered, echo of %q ends at %d", wr.Delivered, prev.Data, prev.SentAfter)
						}
					}
				}
			})
		})
	}}
}

// twinScenario: two sessions of one process run concurrently (one goroutine per device, as fleets are driven): every
// interleaving within the bound of the two callers and the two read loops; each session must return its own
// device's output. State the library shares between connections (package-level buffers, pools, caches) shows here.
func twinScenario(c conf, b sched.Bounds) sched.Scenario {
	name := fmt.Sprintf("twin/%s/pre=%d", c, b.Pre)
	return sched.Scenario{Name: name, Run: func(w *sched.W) {
		// only the read loops' points: a Point inside Channel.Read would make every poll of one session a foreign
		// event for the other session's poller, and the two would re-enable each other for ever at one instant
		cfg := cm.Cfg("chan.read.")
		cfg.NoPreAlt = b.Pre == 0
		cfg.NoIdleAlt = true
		w.Explore(cfg, b, func(e *sched.Env) {
			type sess struct {
				d      *dev.CLIDevice
				tr     *dev.FakeTransport
				res    []string
				err    error
				o1, o2 string
				prompt string
				cmdA   string
				cmdB   string
				setup  error
			}
			mk := func(i int) *sess {
				s := &sess{prompt: fmt.Sprintf("router%d#", i), cmdA: cmd1, cmdB: cmd2,
					o1: fmt.Sprintf("device %d alpha\nsecond line of %d", i, i), o2: fmt.Sprintf("all of device %d", i)}
				s.d = dev.NewCLI("exec", &dev.Mode{Name: "exec", Prompt: s.prompt, OnLine: dev.Table(map[string]dev.Reply{s.cmdA: {Out: s.o1}, s.cmdB: {Out: s.o2}})})
				s.tr = dev.NewFake(e, s.d)
				return s
			}
			ss := []*sess{mk(1), mk(2)}
			for i, s := range ss {
				s := s
				tname := "client"
				if i == 1 {
					tname = "client2"
				}
				e.Go(tname, func() {
					opts := cm.BaseOpts(s.tr, c.delay, 20*time.Second, c.readSize)
					var opo []util.Option
					if c.match == "exact" {
						opo = append(opo, opoptions.WithExactMatchInput())
					}
					g, err := generic.NewDriver("dev", opts...)
					if err != nil {
						s.setup = err
						return
					}
					if s.setup = g.Open(); s.setup != nil {
						return
					}
					for _, cmd := range []string{s.cmdA, s.cmdB, s.cmdA} {
						r, err := g.SendCommand(cmd, opo...)
						if err != nil {
							s.err = err
							return
						}
						s.res = append(s.res, r.Result)
					}
				})
			}
			e.OnFinish(func() {
				if e.Verdict != "" {
					e.Violate("c01:"+e.Verdict, "twin sessions did not finish: %s", e.HangInfo)
					return
				}
				for i, s := range ss {
					if s.setup != nil || s.err != nil {
						e.Violate("c01:twin-op-error", "session %d: setup=%v err=%v", i+1, s.setup, s.err)
						continue
					}
					want := []string{cm.NormOutput(s.o1, ""), cm.NormOutput(s.o2, ""), cm.NormOutput(s.o1, "")}
					e.Observe("s%d=%q", i+1, s.res)
					if strings.Join(s.res, "|") != strings.Join(want, "|") {
						sig := "c01:twin-result-mismatch"
						for _, r := range s.res {
							if strings.Contains(r, fmt.Sprintf("device %d", 2-i)) || strings.Contains(r, fmt.Sprintf("router%d", 2-i)) {
								sig = "c01:twin-result-has-other-sessions-bytes"
							}
						}
						e.Violate(sig, "session %d returned %q want %q", i+1, s.res, want)
					}
					var lines []string
					for _, l := range s.d.NonEmptyLines() {
						lines = append(lines, l)
					}
					if strings.Join(lines, "|") != strings.Join([]string{s.cmdA, s.cmdB, s.cmdA}, "|") {
						e.Violate("c01:twin-device-lines", "device %d received %q", i+1, lines)
					}
				}
			})
		})
	}}
}

func scenarios(tier string) []sched.Scenario {
	var out []sched.Scenario
	thorough := tier == "thorough"
	if thorough {
		for i := range outs {
			if outs[i].name == "long" {
				outs[i].text = longOut(80) // longer than the default search depth of 1000
			}
		}
	}
	var progs []string
	maxLen := 2
	if thorough {
		maxLen = 3
	}
	var gen func(p string)
	gen = func(p string) {
		if p != "" {
			progs = append(progs, p)
		}
		if len(p) == maxLen {
			return
		}
		for _, o := range "ABMP" {
			gen(p + string(o))
		}
	}
	gen("")
	readSizes := []int{1, 7, 8192}
	depths := []int{0, 2}
	delays := []time.Duration{0, cm.Ms}
	if thorough {
		readSizes = []int{1, 2, 7, 64, 8192}
		depths = []int{0, 1, 2}
	}
	var confs []conf
	for _, drv := range []string{"generic", "network"} {
		for _, rs := range readSizes {
			for _, dm := range depths {
				for _, keep := range []bool{false, true} {
					for _, m := range []string{"fuzzy", "exact", "wrap"} {
						for _, dl := range delays {
							for _, psp := range []bool{false, true} {
								if drv == "network" && (rs == 2 || rs == 64 || dm == 1) {
									continue // network adds nothing config-wise beyond the generic path
								}
								confs = append(confs, conf{drv, rs, dm, keep, m, dl, psp})
							}
						}
					}
				}
			}
		}
	}
	// (1) all programs x all configs with the simplest outputs, 0 extra deviations... and
	// (2) all output variants x all configs with a 2-op program, env deviations per tier
	envB := 1
	if thorough {
		envB = 2
	}
	for _, p := range progs {
		for _, c := range confs {
			b := sched.Bounds{Env: 0}
			if c.readSize == 8192 && !thorough {
				b.Env = 1
			}
			if thorough {
				b.Env = 1
			}
			out = append(out, scenario(p, outs[0], outs[2], c, b, true, "prog"))
		}
	}
	for i, o := range outs {
		for _, c := range confs {
			if c.readSize == 1 && o.name != "hashword" {
				continue // no cut alternatives exist with 1-byte reads; covered by (1)
			}
			b := sched.Bounds{Env: envB}
			if o.name == "long" && envB > 1 {
				b.Env = 1
			}
			out = append(out, scenario("AB", o, outs[(i+1)%len(outs)], c, b, true, "outs"))
		}
	}
	// (3) complete segmentation of a tiny session (every composition of every piece of the stream)
	tiny := outv{"tiny", "o"}
	for _, c := range confs {
		if c.readSize != 8192 || c.drv != "generic" {
			continue
		}
		if !thorough && c.keep {
			continue
		}
		out = append(out, scenario("A", tiny, outv{"tiny2", "p q"}, c, sched.Bounds{Env: 1000, MaxExecs: 300000}, true, "allseg"))
		if thorough {
			out = append(out, scenario("B", tiny, outv{"tiny2", "p q"}, c, sched.Bounds{Env: 1000, MaxExecs: 300000}, true, "allseg"))
			out = append(out, scenario("AB", tiny, outv{"tiny2", "p q"}, c, sched.Bounds{Env: 1000, MaxExecs: 300000}, true, "allseg"))
		}
	}
	// (4) reader/consumer preemptions on the default segmentation
	if thorough {
		for _, c := range confs {
			if c.drv != "generic" || c.depthMode != 2 {
				continue
			}
			out = append(out, scenario("AB", outs[2], outs[0], c, sched.Bounds{Pre: 1, Env: 1, Total: 2}, true, "pre"))
		}
	} else {
		for _, c := range confs {
			if c.drv != "generic" || c.depthMode != 2 || c.readSize == 1 {
				continue
			}
			out = append(out, scenario("A", outs[2], outs[0], c, sched.Bounds{Pre: 1, Env: 0}, false, "pre"))
			if c.readSize == 7 && !c.keep && !c.promptSp {
				// a delivery while the consumer is runnable plus a switch to the reader: the reader's enqueue lands
				// inside the consumer's dequeue (queue hooks on)
				out = append(out, scenario("A", outs[0], outs[2], c, sched.Bounds{Pre: 1, Env: 1, Total: 2}, false, "pre"))
			}
		}
	}
	// (5) two concurrent sessions
	for _, c := range confs {
		if c.drv != "generic" || c.depthMode != 2 || c.keep || c.promptSp || c.match == "wrap" || c.readSize == 7 {
			continue
		}
		pre := 1
		if thorough {
			pre = 2
		}
		out = append(out, twinScenario(c, sched.Bounds{Pre: pre}))
	}
	return out
}

func TestCheck(t *testing.T) {
	sched.Main(t, sched.Check{
		ID:    "C01",
		Level: "model_checking",
		Rule: "scenario = (driver, program over {SendCommand c1, SendCommand c2, SendCommands[c1,c2], GetPrompt}, output variants, read size, search depth, strip/keep prompt, fuzzy/exact/wrapped echo, read delay, prompt trailing space); " +
			"per scenario every placement of up to Env extra read cuts / held deliveries (and Pre thread switches) around the preset segmentation is executed on the real driver over a causal device model; " +
			"'allseg' scenarios enumerate every segmentation of every piece of a tiny session; 'twin' scenarios run two sessions of one process concurrently (all interleavings of the two callers and read loops within the thread-switch bound); distinct = distinct (choice sequence, observed results)",
		Assumptions: []string{
			"device echoes input verbatim (or with wrap bytes in 'wrap' mode) and answers a line when its return arrives",
			"no proper prefix of an exchange looks like a prompt: outputs contain [#>$] only at the end of a line that as a whole does not match the prompt pattern; escape sequences are never cut",
			"search depth >= longest output line + prompt + 4",
		},
		Scenarios: scenarios,
		Budget:    map[string]time.Duration{"quick": 5 * time.Minute, "thorough": 60 * time.Minute},
	})
}

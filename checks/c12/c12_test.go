// C12 — interactive dialogues are paced by the device; secrets go only to their prompt.
package c12

import (
	"fmt"
	"regexp"
	"strings"
	"testing"
	"time"

	"github.com/scrapli/scrapligo/channel"
	"github.com/scrapli/scrapligo/driver/generic"
	"github.com/scrapli/scrapligo/driver/network"
	"github.com/scrapli/scrapligo/driver/opoptions"
	"github.com/scrapli/scrapligo/driver/options"
	"github.com/scrapli/scrapligo/util"

	"verif/checks/cm"
	"verif/dev"
	"verif/sched"
)

// ---- interactive dialogues -----------------------------------------------------------------------

type ev struct {
	hidden bool
	resp   bool // an expected response is given (else the prompt is awaited)
}

type dlg struct {
	events   []ev
	early    int  // -1, or the index of the event after which the device ends the dialogue early
	complete bool // completion patterns given
	wrap     bool // device echoes with wrap bytes
	maxChunk int
	env      int
	long     bool // the device's answers are longer than the (lowered) prompt search depth
	divert   int  // -1, or the index of an event with an expected response that the device answers with its ordinary prompt instead
}

func (d dlg) name() string {
	var s []string
	for _, e := range d.events {
		x := "v"
		if e.hidden {
			x = "h"
		}
		if e.resp {
			x += "r"
		} else {
			x += "p"
		}
		s = append(s, x)
	}
	n := fmt.Sprintf("dlg/events=%s/early=%d/complete=%v/wrap=%v/chunk=%d/env=%d", strings.Join(s, ","), d.early, d.complete, d.wrap, d.maxChunk, d.env)
	if d.long {
		n += "/long"
	}
	if d.divert >= 0 {
		n += fmt.Sprintf("/divert=%d", d.divert)
	}
	return n
}

const prompt = "router#"

func dlgScenario(s dlg) sched.Scenario {
	return sched.Scenario{Name: s.name(), Run: func(w *sched.W) {
		cfg := cm.Cfg()
		cfg.NoPreAlt = true
		cfg.NoIdleAlt = s.env == 0
		cfg.Horizon = 5 * time.Second
		rd := cm.Ms
		if s.maxChunk > 0 {
			rd = 0
		}
		n := len(s.events)
		w.Explore(cfg, sched.Bounds{Env: s.env}, func(e *sched.Env) {
			// device: mode m<i> expects input i
			var modes []*dev.Mode
			respEnd := make([]int, n) // stream offset after the device answered event i (filled from the write log)
			for i := 0; i <= n; i++ {
				i := i
				m := &dev.Mode{Name: fmt.Sprintf("m%d", i), Prompt: ""}
				if i < n {
					m.NoEcho = s.events[i].hidden
				}
				m.OnLine = func(d *dev.CLIDevice, line string) dev.Reply {
					if i >= n || line != fmt.Sprintf("in%d", i) {
						if line == "" {
							p := prompt
							return dev.Reply{Raw: &p}
						}
						bad := "% unexpected input\n" + prompt
						return dev.Reply{Raw: &bad, Wrong: true}
					}
					var out string
					next := fmt.Sprintf("m%d", i+1)
					if s.long {
						for k := 0; k < 8; k++ {
							out += fmt.Sprintf("listing %d row %02d\n", i, k)
						}
					}
					switch {
					case i == s.divert:
						// the device does not show what the event awaits: it is back at its ordinary prompt
						out += fmt.Sprintf("text of step %d\n%s", i, prompt)
						next = fmt.Sprintf("m%d", n)
					case i == s.early:
						// the device ends the dialogue early: the completion pattern is the last thing it prints
						out += fmt.Sprintf("result of step %d  \nrouter(done)#", i)
						next = fmt.Sprintf("m%d", n)
					case i == n-1 && s.events[i].resp:
						out += fmt.Sprintf("result of step %d  \nfinal\nQ%d> ", i, i)
						next = fmt.Sprintf("m%d", n)
					case i == n-1:
						out += fmt.Sprintf("result of step %d  \nfinal\n%s", i, prompt)
						next = fmt.Sprintf("m%d", n)
					case s.events[i].resp:
						out += fmt.Sprintf("text of step %d\nQ%d> ", i, i)
					default:
						out += fmt.Sprintf("text of step %d\n%s", i, prompt)
					}
					return dev.Reply{Raw: &out, Next: next}
				}
				modes = append(modes, m)
			}
			d := dev.NewCLI("m0", modes...)
			d.NoFirst = true
			if s.wrap {
				d.Wrap, d.WrapEvery = " \r", 2
			}
			tr := dev.NewFake(e, d)
			tr.MaxChunk, tr.Cuts = s.maxChunk, s.env > 0
			var res string
			var err, setupErr error
			w0, sent0 := 0, 0
			e.Go("client", func() {
				gopts := cm.BaseOpts(tr, rd, 300*cm.Ms, 0)
				if s.long {
					gopts = append(gopts, options.WithPromptSearchDepth(48)) // > longest line + prompt, < one answer
				}
				g, nerr := generic.NewDriver("dev", gopts...)
				if nerr != nil {
					setupErr = nerr
					return
				}
				if setupErr = g.Open(); setupErr != nil {
					return
				}
				var events []*channel.SendInteractiveEvent
				for i, x := range s.events {
					ce := &channel.SendInteractiveEvent{ChannelInput: fmt.Sprintf("in%d", i), HideInput: x.hidden}
					if x.resp {
						ce.ChannelResponse = fmt.Sprintf(`Q%d>`, i)
					}
					events = append(events, ce)
				}
				var o []util.Option
				if s.complete {
					// the caller's slice has spare capacity, as one built with append has
					cp := append(make([]*regexp.Regexp, 0, 4), regexp.MustCompile(`(?m)^router\(done\)#$`))
					o = append(o, opoptions.WithCompletePatterns(cp))
				}
				w0, sent0 = len(tr.Writes), tr.Sent()
				e.OpenWindow()
				r, rerr := g.SendInteractive(events, o...)
				err = rerr
				if r != nil {
					res = r.Result
				}
			})
			e.OnFinish(func() {
				if setupErr != nil || e.Verdict != "" {
					e.Violate("c12:session-failed", "%v %s %s", setupErr, e.Verdict, e.HangInfo)
					return
				}
				last := n - 1
				if s.early >= 0 && s.complete {
					last = s.early
				}
				expectErr := s.early >= 0 && !s.complete && s.early < n-1
				e.Observe("err=%s writes=%d", cm.ErrClass(err), len(tr.Writes)-w0)
				// inputs as written
				var inputs []dev.WriteRec
				var returns []dev.WriteRec
				for _, wr := range tr.Writes[w0:] {
					if string(wr.Data) == "\n" {
						returns = append(returns, wr)
					} else {
						inputs = append(inputs, wr)
					}
				}
				trimEnd := func(off int) int {
					for off > 0 && (tr.AllOut[off-1] == ' ' || tr.AllOut[off-1] == '\n' || tr.AllOut[off-1] == '\r') {
						off--
					}
					return off
				}
				for i, rw := range returns {
					if i < n {
						respEnd[i] = trimEnd(rw.SentAfter) // the awaited text is complete before trailing blanks
					}
				}
				// pacing: input i only after the device's answer to event i-1 was delivered completely
				for i := 1; i < len(inputs); i++ {
					if i-1 < len(returns) && inputs[i].Delivered < respEnd[i-1] {
						e.Violate("c12:input-typed-ahead", "input %d (%q) written when %d bytes were delivered; the answer to event %d ends at byte %d", i, inputs[i].Data, inputs[i].Delivered, i-1, respEnd[i-1])
					}
				}
				// each visible input with an expected response: its return only after its echo was delivered
				for i := 0; i < len(inputs) && i < len(returns); i++ {
					if !s.events[i].hidden && s.events[i].resp && returns[i].Delivered < inputs[i].SentAfter {
						e.Violate("c12:return-before-echo", "return of event %d written at %d delivered bytes, its echo ends at %d", i, returns[i].Delivered, inputs[i].SentAfter)
					}
				}
				if s.divert >= 0 {
					// the awaited response was never delivered: nothing further may be typed
					if len(inputs) > s.divert+1 {
						e.Violate("c12:input-sent-without-awaited-response", "event %d awaits %q, the device showed its prompt instead, yet input %q was written", s.divert, fmt.Sprintf("Q%d>", s.divert), inputs[s.divert+1].Data)
					}
					return
				}
				if expectErr {
					// the device ended the dialogue and no completion pattern was given: the awaited response never comes
					if err == nil && last < n-1 {
						// acceptable only if nothing was typed at the prompt that the device objected to
					}
					return
				}
				if err != nil {
					e.Violate("c12:dialogue-failed", "err=%v (events=%v)", err, s.events)
					return
				}
				if len(inputs) != last+1 {
					sig := "c12:inputs-sent"
					if len(inputs) > last+1 {
						sig = "c12:input-sent-after-completion"
					}
					e.Violate(sig, "%d inputs written, want %d", len(inputs), last+1)
				}
				for _, l := range d.Lines {
					if l.Wrong {
						e.Violate("c12:device-objected", "line %q in mode %s", l.Line, l.Mode)
					}
				}
				want := cm.NormOutput(string(tr.AllOut[sent0:]), "")
				if res != want {
					e.Violate("c12:result-not-whole-dialogue", "result %q want %q", res, want)
				}
			})
		})
	}}
}

// ---- plain command: eager vs not ------------------------------------------------------------------

// dbl: the command ends in a doubled character and unread bytes (the prompt printed at connect) precede its
// echo -- what a fuzzy echo matcher that lets one echoed byte count twice needs in order to return early
func cmdScenario(eager, dbl, long bool, maxChunk, env int) sched.Scenario {
	return cmdScenarioX(eager, dbl, long, false, maxChunk, env)
}

func cmdScenarioX(eager, dbl, long, exact bool, maxChunk, env int, slow ...int) sched.Scenario {
	cmd := cm.Cmd1
	name := fmt.Sprintf("cmd/eager=%v/chunk=%d/env=%d", eager, maxChunk, env)
	// slow = {k, pct}: the device falls silent after k bytes of the echo and carries on pct% into the timeout
	if len(slow) == 2 {
		name += fmt.Sprintf("/slow-echo=%d@%d%%", slow[0], slow[1])
	}
	if exact {
		name += "/exact"
	}
	if dbl {
		cmd = "show vlan 100"
		name += "/doubled"
	}
	if long {
		// longer than the (lowered) search depth and repetitive: a partial echo already contains its tail
		cmd = strings.Repeat("ab ", 40) + "ab"
		name += "/longcmd"
	}
	return sched.Scenario{Name: name, Run: func(w *sched.W) {
		cfg := cm.Cfg()
		cfg.NoPreAlt, cfg.NoIdleAlt = true, env == 0
		cfg.Horizon = 5 * time.Second
		rd := cm.Ms
		if maxChunk > 0 {
			rd = 0
		}
		w.Explore(cfg, sched.Bounds{Env: env}, func(e *sched.Env) {
			d := cm.StdCLI("privilege-exec", false)
			d.NoFirst = true
			if dbl || long {
				d = dev.NewCLI("m", &dev.Mode{Name: "m", Prompt: "router#", OnLine: dev.Table(map[string]dev.Reply{cmd: {Out: cm.Out1}})})
			}
			tr := dev.NewFake(e, d)
			tr.MaxChunk, tr.Cuts = maxChunk, env > 0
			var err, setupErr error
			var res string
			w0 := 0
			e.Go("client", func() {
				gopts := cm.BaseOpts(tr, rd, 300*cm.Ms, 0)
				if long {
					gopts = append(gopts, options.WithPromptSearchDepth(48))
				}
				g, nerr := generic.NewDriver("dev", gopts...)
				if nerr != nil {
					setupErr = nerr
					return
				}
				if setupErr = g.Open(); setupErr != nil {
					return
				}
				var o []util.Option
				if eager {
					o = append(o, opoptions.WithEager())
				}
				if exact {
					o = append(o, opoptions.WithExactMatchInput())
				}
				w0 = len(tr.Writes)
				if len(slow) == 2 {
					tr.StallAt = tr.Sent() + slow[0]
					time.AfterFunc(300*cm.Ms*time.Duration(slow[1])/100, func() {
						tr.Release()
						e.Poke()
					})
				}
				e.OpenWindow()
				r, rerr := g.SendCommand(cmd, o...)
				err = rerr
				if r != nil {
					res = r.Result
				}
			})
			e.OnFinish(func() {
				if setupErr != nil || e.Verdict != "" || err != nil {
					e.Violate("c12:cmd-session-failed", "%v %v %s %s", setupErr, err, e.Verdict, e.HangInfo)
					return
				}
				ws := tr.Writes[w0:]
				if len(ws) != 2 || string(ws[0].Data) != cmd || string(ws[1].Data) != "\n" {
					e.Violate("c12:cmd-writes", "writes %v", ws)
					return
				}
				e.Observe("ret-at=%d echo-end=%d", ws[1].Delivered, ws[0].SentAfter)
				if !eager {
					if ws[1].Delivered < ws[0].SentAfter {
						e.Violate("c12:return-before-echo", "return written at %d delivered bytes, echo ends at %d", ws[1].Delivered, ws[0].SentAfter)
					}
					if res != cm.Out1 {
						e.Violate("c12:cmd-result", "result %q", res)
					}
				}
			})
		})
	}}
}

// ---- privilege escalation and the secondary secret -----------------------------------------------

type esc struct {
	behaviour string // asks-grants | grants | refuses | asks-refuses
	secret    bool
	authEdge  bool
	maxChunk  int
	env       int
	noise     bool // the device prints an unsolicited log line right after the prompt, in the same burst
}

func escScenario(s esc) sched.Scenario {
	name := fmt.Sprintf("esc/%s/secret=%v/auth=%v/chunk=%d/env=%d", s.behaviour, s.secret, s.authEdge, s.maxChunk, s.env)
	if s.noise {
		name += "/noise"
	}
	return sched.Scenario{Name: name, Run: func(w *sched.W) {
		cfg := cm.Cfg()
		cfg.NoPreAlt, cfg.NoIdleAlt = true, s.env == 0
		cfg.Horizon = 20 * time.Second
		rd := cm.Ms
		if s.maxChunk > 0 {
			rd = 0
		}
		w.Explore(cfg, sched.Bounds{Env: s.env}, func(e *sched.Env) {
			pw := "Password: "
			d := dev.NewCLI("exec",
				&dev.Mode{Name: "exec", Prompt: "router>", OnLine: func(_ *dev.CLIDevice, line string) dev.Reply {
					switch {
					case line == "":
						return dev.Reply{}
					case line == "enable":
						switch s.behaviour {
						case "asks-grants", "asks-refuses":
							return dev.Reply{Raw: &pw, Next: "pw"}
						case "asks-gives-up":
							// the password prompt and, in the same burst, a refusal and the exec prompt again
							raw := pw + "\n% Authentication server unreachable\nrouter>"
							return dev.Reply{Raw: &raw}
						case "grants":
							if s.noise {
								raw := "router#\n%LINK-3-UPDOWN: Interface Gi1, changed state to up\n"
								return dev.Reply{Raw: &raw, Next: "priv"}
							}
							return dev.Reply{Next: "priv"}
						default:
							if s.noise {
								raw := "% Command authorization failed\nrouter>\n%LINK-3-UPDOWN: Interface Gi1, changed state to up\n"
								return dev.Reply{Raw: &raw}
							}
							return dev.Reply{Out: "% Command authorization failed"}
						}
					}
					return dev.Reply{Out: "% Unknown command", Wrong: true}
				}},
				&dev.Mode{Name: "pw", Prompt: pw, NoEcho: true, OnLine: func(_ *dev.CLIDevice, line string) dev.Reply {
					if s.behaviour == "asks-grants" && line == cm.Secret {
						return dev.Reply{Next: "priv"}
					}
					return dev.Reply{Out: "% Access denied", Next: "exec"}
				}},
				&dev.Mode{Name: "priv", Prompt: "router#", OnLine: func(_ *dev.CLIDevice, line string) dev.Reply {
					if line == "" {
						return dev.Reply{}
					}
					return dev.Reply{Out: "% Unknown command", Wrong: true}
				}},
			)
			d.NoFirst = true
			tr := dev.NewFake(e, d)
			tr.MaxChunk, tr.Cuts = s.maxChunk, s.env > 0
			var err, setupErr error
			e.Go("client", func() {
				lv := cm.StdLevels(s.authEdge)
				delete(lv, "configuration")
				opts := append(cm.BaseOpts(tr, rd, 50*cm.Ms, 0), options.WithPrivilegeLevels(lv), options.WithDefaultDesiredPriv("exec"))
				if s.secret {
					opts = append(opts, options.WithAuthSecondary(cm.Secret))
				}
				n, nerr := network.NewDriver("dev", opts...)
				if nerr != nil {
					setupErr = nerr
					return
				}
				if setupErr = n.Open(); setupErr != nil {
					return
				}
				e.OpenWindow()
				err = n.AcquirePriv("privilege-exec")
			})
			e.OnFinish(func() {
				if setupErr != nil || e.Verdict != "" {
					e.Violate("c12:esc-session-failed", "%v %s %s", setupErr, e.Verdict, e.HangInfo)
					return
				}
				e.Observe("err=%s final=%s", cm.ErrClass(err), d.Cur)
				if s.behaviour == "asks-gives-up" {
					// the device showed the password prompt and withdrew it in the same burst: answering the prompt is
					// legitimate only as long as the withdrawal has not been delivered yet
					burstEnd := -1
					for i, wr := range tr.Writes {
						if i > 0 && string(wr.Data) == "\n" && string(tr.Writes[i-1].Data) == "enable" {
							burstEnd = wr.SentAfter // (re-armed by every further attempt)
						}
						if strings.Contains(string(wr.Data), cm.Secret) && burstEnd >= 0 && wr.Delivered >= burstEnd {
							e.Violate("c12:secret-typed-at-command-prompt", "secret written when all %d bytes of the burst (password prompt, refusal, exec prompt) had been delivered", burstEnd)
						}
					}
					if err == nil {
						e.Violate("c12:escalation-reported-success", "behaviour %s: AcquirePriv returned nil, device in %s", s.behaviour, d.Cur)
					}
					return
				}
				// the secret is only ever typed while the password prompt is displayed AND delivered
				pwShownAt := -1
				for _, wr := range tr.Writes {
					if string(wr.Data) == "\n" || len(wr.Data) == 0 {
						if wr.State == "exec" && d.Cur != "" {
							// remember where the password prompt (if the device now shows it) ends
						}
					}
					if strings.Contains(string(wr.Data), cm.Secret) {
						if wr.State != "pw" {
							e.Violate("c12:secret-typed-at-command-prompt", "secret written while the device was in mode %q (behaviour %s)", wr.State, s.behaviour)
						}
						if pwShownAt >= 0 && wr.Delivered < pwShownAt {
							e.Violate("c12:secret-before-prompt-delivered", "secret written at %d delivered bytes, password prompt ends at %d", wr.Delivered, pwShownAt)
						}
					}
					if wr.State == "exec" && string(wr.Data) == "\n" {
						// a return typed in exec mode: if it completed "enable" the prompt that follows ends at SentAfter
						pwShownAt = wr.SentAfter
						for pwShownAt > 0 && tr.AllOut[pwShownAt-1] == ' ' {
							pwShownAt--
						}
					}
				}
				for _, l := range d.Lines {
					if l.Mode != "pw" && strings.Contains(l.Line, cm.Secret) {
						e.Violate("c12:secret-typed-at-command-prompt", "device received the secret as a command line in mode %s", l.Mode)
					}
					if l.Wrong {
						e.Violate("c12:device-objected", "line %q in mode %s", l.Line, l.Mode)
					}
				}
				ok := (s.behaviour == "grants") || (s.behaviour == "asks-grants" && s.secret && s.authEdge)
				if ok && (err != nil || d.Cur != "priv") {
					e.Violate("c12:escalation-failed", "behaviour %s: err=%v final mode %s", s.behaviour, err, d.Cur)
				}
				if !ok && err == nil {
					e.Violate("c12:escalation-reported-success", "behaviour %s secret=%v auth=%v: AcquirePriv returned nil, device in %s", s.behaviour, s.secret, s.authEdge, d.Cur)
				}
			})
		})
	}}
}

// twinDialogues: two connections of one process run interactive sends at the same time. Connection A waits for
// "A-confirm>" while its device has so far only printed a line that happens to contain the text connection B waits
// for; B's dialogue runs to completion meanwhile. A must not type its next input before its own expected response
// was delivered, whatever B is waiting for.
func twinDialogues(pre int) sched.Scenario {
	return sched.Scenario{Name: fmt.Sprintf("twin-dialogues/pre=%d", pre), Run: func(w *sched.W) {
		cfg := cm.Cfg("chan.read.")
		cfg.NoPreAlt = pre == 0
		cfg.NoIdleAlt = true
		cfg.Horizon = 5 * time.Second
		w.Explore(cfg, sched.Bounds{Pre: pre}, func(e *sched.Env) {
			raw := func(s string) *string { return &s }
			dA := dev.NewCLI("a0",
				&dev.Mode{Name: "a0", Prompt: "", OnLine: func(_ *dev.CLIDevice, line string) dev.Reply {
					if line == "inA0" {
						return dev.Reply{Raw: raw("checking: B-marker seen here\n"), Next: "a1"}
					}
					return dev.Reply{Raw: raw("")}
				}},
				&dev.Mode{Name: "a1", Prompt: "", OnLine: func(_ *dev.CLIDevice, line string) dev.Reply {
					if line == "inA1" {
						return dev.Reply{Raw: raw("all done\nrouter#"), Next: "a2"}
					}
					return dev.Reply{Raw: raw("")}
				}},
				&dev.Mode{Name: "a2", Prompt: "router#"})
			dA.NoFirst = true
			dB := dev.NewCLI("b0",
				&dev.Mode{Name: "b0", Prompt: "", OnLine: func(_ *dev.CLIDevice, line string) dev.Reply {
					if line == "inB0" {
						return dev.Reply{Raw: raw("B-marker> "), Next: "b1"}
					}
					return dev.Reply{Raw: raw("")}
				}},
				&dev.Mode{Name: "b1", Prompt: "", OnLine: func(_ *dev.CLIDevice, line string) dev.Reply {
					if line == "inB1" {
						return dev.Reply{Raw: raw("ok\nrouter#"), Next: "b2"}
					}
					return dev.Reply{Raw: raw("")}
				}},
				&dev.Mode{Name: "b2", Prompt: "router#"})
			dB.NoFirst = true
			trA, trB := dev.NewFake(e, dA), dev.NewFake(e, dB)
			var errA, errB, setupErr error
			confirmEnd := -1
			bDone := make(chan struct{})
			e.Go("client", func() {
				g, err := generic.NewDriver("devA", cm.BaseOpts(trA, cm.Ms, 300*cm.Ms, 0)...)
				if err != nil {
					setupErr = err
					return
				}
				if setupErr = g.Open(); setupErr != nil {
					return
				}
				_, errA = g.SendInteractive([]*channel.SendInteractiveEvent{
					{ChannelInput: "inA0", ChannelResponse: "A-confirm>"},
					{ChannelInput: "inA1", ChannelResponse: ""},
				})
			})
			e.Go("client2", func() {
				defer close(bDone)
				g, err := generic.NewDriver("devB", cm.BaseOpts(trB, cm.Ms, 300*cm.Ms, 0)...)
				if err != nil {
					setupErr = err
					return
				}
				if setupErr = g.Open(); setupErr != nil {
					return
				}
				// start once A has typed its first input
				for len(dA.NonEmptyLines()) == 0 {
					time.Sleep(cm.Ms)
				}
				_, errB = g.SendInteractive([]*channel.SendInteractiveEvent{
					{ChannelInput: "inB0", ChannelResponse: "B-marker"},
					{ChannelInput: "inB1", ChannelResponse: ""},
				})
				// only now does device A print what A is waiting for
				time.Sleep(3 * cm.Ms)
				trA.Inject([]byte("A-confirm> "))
				confirmEnd = trA.Sent()
			})
			e.OnFinish(func() {
				if setupErr != nil || e.Verdict != "" {
					e.Violate("c12:twin-session-failed", "%v %s %s", setupErr, e.Verdict, e.HangInfo)
					return
				}
				e.Observe("errA=%s errB=%s", cm.ErrClass(errA), cm.ErrClass(errB))
				for _, wr := range trA.Writes {
					if string(wr.Data) == "inA1" && (confirmEnd < 0 || wr.Delivered < confirmEnd-1) {
						e.Violate("c12:input-typed-ahead-other-connection", "connection A typed its second input when %d bytes were delivered; its expected response ends at byte %d (-1: not even printed yet)", wr.Delivered, confirmEnd)
					}
				}
				if errA != nil || errB != nil {
					e.Violate("c12:twin-dialogue-failed", "A: %v, B: %v", errA, errB)
				}
			})
		})
	}}
}

func scenarios(tier string) []sched.Scenario {
	var out []sched.Scenario
	out = append(out, twinDialogues(0), twinDialogues(1))
	var lists [][]ev
	var gen func(l []ev)
	gen = func(l []ev) {
		if len(l) > 0 {
			lists = append(lists, append([]ev{}, l...))
		}
		if len(l) == 3 {
			return
		}
		for _, h := range []bool{false, true} {
			for _, r := range []bool{false, true} {
				gen(append(l, ev{h, r}))
			}
		}
	}
	gen(nil)
	envB := 1
	if tier == "thorough" {
		envB = 2
	}
	for _, l := range lists {
		for early := -1; early < len(l)-1; early++ {
			for _, complete := range []bool{false, true} {
				if early >= 0 && !complete {
					continue // without completion patterns an early end just means the awaited text never comes (C05)
				}
				for _, wrap := range []bool{false, true} {
					for _, mc := range []int{0, 1, 3} {
						env := 0
						if mc == 0 {
							env = envB
						}
						if tier != "thorough" && len(l) == 3 && mc == 3 {
							continue
						}
						out = append(out, dlgScenario(dlg{l, early, complete, wrap, mc, env, false, -1}))
						if len(l) <= 2 && !wrap {
							out = append(out, dlgScenario(dlg{l, early, complete, wrap, mc, env, true, -1}))
						}
					}
				}
			}
		}
	}
	for _, l := range lists {
		for dv := 0; dv < len(l)-1; dv++ {
			if !l[dv].resp {
				continue
			}
			for _, complete := range []bool{false, true} {
				for _, mc := range []int{0, 1} {
					out = append(out, dlgScenario(dlg{l, -1, complete, false, mc, 1 - mc, false, dv}))
				}
			}
		}
	}
	for _, exact := range []bool{false, true} {
		for _, mc := range []int{0, 1} {
			for _, k := range []int{0, 5, len(cm.Cmd1) - 1} {
				for _, pct := range []int{10, 30, 60, 90} {
					out = append(out, cmdScenarioX(false, false, false, exact, mc, 0, k, pct))
				}
			}
		}
	}
	for _, eager := range []bool{false, true} {
		for _, mc := range []int{0, 1, 3} {
			env := 0
			if mc == 0 {
				env = envB + 1
			}
			out = append(out, cmdScenario(eager, false, false, mc, env), cmdScenario(eager, true, false, mc, env), cmdScenario(eager, false, true, mc, env),
				cmdScenarioX(eager, false, false, true, mc, env), cmdScenarioX(eager, false, true, true, mc, env))
		}
	}
	for _, b := range []string{"asks-grants", "grants", "refuses", "asks-refuses", "asks-gives-up"} {
		for _, secret := range []bool{false, true} {
			for _, auth := range []bool{false, true} {
				for _, mc := range []int{0, 1, 3} {
					env := 0
					if mc == 0 {
						env = envB
					}
					out = append(out, escScenario(esc{b, secret, auth, mc, env, false}))
					if b == "grants" || b == "refuses" {
						out = append(out, escScenario(esc{b, secret, auth, mc, env, true}))
					}
				}
			}
		}
	}
	return out
}

func TestCheck(t *testing.T) {
	sched.Main(t, sched.Check{
		ID:    "C12",
		Level: "model_checking",
		Rule: "interactive: every event list of 1..3 events over {visible,hidden} x {expected response given, prompt awaited} x {device ends the dialogue early after event i with completion patterns given} x {verbatim, wrapped echo} x {an event's awaited response replaced by the device's ordinary prompt} x read presets {whole,1,3} with every placement of up to 1 (2 thorough) extra cuts/holds; (+ answers longer than a lowered search depth); plain command eager/not eager x {ordinary, doubled last character with unread bytes before the echo, long repetitive, exact input matching; echo interrupted after {0, 5, all but one} bytes and resumed {10,30,60,90}% into the timeout}; escalation: device behaviour {asks then grants, grants without asking, refuses without asking, asks then refuses, asks and gives up in the same burst; grants/refuses also followed by an unsolicited log line} x {secret set, not} x {edge authenticated, not}; two connections of one process running dialogues at the same time; " +
			"the causal device model decides when answers are delivered; oracle over the shared write/delivery log: input i written only after the answer to event i-1 was delivered completely, return after echo, hidden input not awaited, result = whole dialogue, secret written only while the password prompt is displayed and delivered",
		Assumptions: []string{"each expected response is the last thing the device prints for its event", "the device never echoes hidden input"},
		Scenarios:   scenarios,
		Budget:      map[string]time.Duration{"quick": 5 * time.Minute, "thorough": 40 * time.Minute},
	})
}

// C02 — NETCONF replies decode to exactly the payload, or are explicitly failed.
package c02

import (
	"bytes"
	"fmt"
	"github.com/scrapli/scrapligo/driver/options"
	"regexp"
	"strconv"
	"strings"
	"testing"
	"time"

	"github.com/scrapli/scrapligo/driver/netconf"
	"github.com/scrapli/scrapligo/response"

	"verif/checks/cm"
	"verif/dev"
	"verif/sched"
)

const xmlHeader = `<?xml version="1.0" encoding="UTF-8"?>`

type pl struct {
	name string
	xml  string
	err  bool // carries an rpc-error element
}

func okReply(body string) string {
	return `<rpc-reply xmlns="` + dev.NSBase + `" message-id="101">` + body + `</rpc-reply>`
}

var payloads = []pl{
	{"tiny", "<ok/>", false},
	{"tiny2", "<a>#1\n#</a>", false},
	{"hashedge", "#<a>9\n#</a>#", false},
	{"digits", "12<a>34</a>56", false},
	{"nlhash", "<a>x\n#2\ny\n##z</a>", false},
	{"ok", okReply("<ok/>"), false},
	{"data", okReply("<data><name>eth0</name>\n<mtu>1500</mtu></data>"), false},
	{"utf8", "é" + okReply("<d>日本語ü</d>") + "é", false},
	{"decl", xmlHeader + okReply("<ok/>"), false},
	{"declnl", xmlHeader + "\n" + okReply("<ok/>") + "\n", false},
	{"err", okReply("<rpc-error><error-type>application</error-type><error-severity>error</error-severity><error-message>bad</error-message></rpc-error>"), true},
	{"errattr", okReply(`<rpc-error xmlns:x="urn:x"><error-severity>error</error-severity></rpc-error>`), true},
	{"errnc", `<nc:rpc-reply xmlns:nc="` + dev.NSBase + `" message-id="101"><nc:rpc-error><nc:error-severity>error</nc:error-severity></nc:rpc-error></nc:rpc-reply>`, true},
	{"err2", okReply("<rpc-error><error-severity>warning</error-severity></rpc-error><rpc-error><error-severity>error</error-severity></rpc-error>"), true},
	{"innerdecl", okReply("<d><![CDATA[" + xmlHeader + "<x/>]]></d>"), false},              // an XML declaration inside the payload (a document carried as text) is payload
	{"decl+innerdecl", xmlHeader + okReply("<d><![CDATA["+xmlHeader+"<x/>]]></d>"), false}, // only the leading one is trimmed
	{"mid", okReply("<data>" + strings.Repeat("0123456789", 9) + "</data>"), false},        // ~170 bytes: 3-digit sizes
	{"big", okReply("<data>" + strings.Repeat("abcdefghij", 105) + "</data>"), false},      // >1100 bytes: 4-digit sizes
}

// payload with a line that is exactly "##": legal data, handled separately (driver leg)
var hashLine = pl{"hashline", okReply("<d>a\n##\nb</d>"), false}

var errElem = regexp.MustCompile(`<(\w+:)?rpc-error[\s>]`)

func refPayload(p string) string {
	return strings.TrimSpace(strings.TrimPrefix(p, xmlHeader))
}

func isParseErr(err error) bool {
	return err != nil && strings.Contains(err.Error(), "unable to parse netconf")
}

// record calls the real decoder, converting a panic into a string.
func record(version string, raw []byte) (r *response.NetconfResponse, panicked string) {
	defer func() {
		if x := recover(); x != nil {
			panicked = fmt.Sprint(x)
		}
	}()
	r = response.NewNetconfResponse([]byte("<in/>"), []byte("<in/>"), "h", 830, version)
	r.Record(raw)
	return r, ""
}

func panicSig(p string) string {
	switch {
	case strings.Contains(p, "index out of range"):
		return "c02:panic:index-out-of-range"
	case strings.Contains(p, "slice bounds out of range"):
		return "c02:panic:slice-bounds"
	case strings.Contains(p, "makeslice") || strings.Contains(p, "out of memory"):
		return "c02:panic:alloc"
	}
	return "c02:panic:other"
}

func isSubseq(sub, s []byte) bool {
	i := 0
	for _, c := range s {
		if i < len(sub) && sub[i] == c {
			i++
		}
	}
	return i == len(sub)
}

// ---- leg 1: legal framings -------------------------------------------------------------------

func checkLegal(w *sched.W, p pl, version string, parts [][]byte, wrap string) {
	raw := dev.Frame(version, []byte(p.xml), parts)
	switch wrap {
	case "trimmed": // what the driver's regex framing hands over: no trailing LF
		raw = bytes.TrimRight(raw, "\n")
	case "lfboth":
		raw = append([]byte("\n"), raw...)
	}
	r, pan := record(version, raw)
	sizes := make([]string, len(parts))
	for i, q := range parts {
		sizes[i] = strconv.Itoa(len(q))
	}
	cse := fmt.Sprintf("payload=%s version=%s chunks=[%s] wrap=%s", p.name, version, strings.Join(sizes, ","), wrap)
	w.Case("", cse)
	if pan != "" {
		w.Violate(panicSig(pan)+":legal", cse+": "+pan, cse)
		return
	}
	want := refPayload(p.xml)
	if r.Result != want {
		sig := "c02:legal-result-differs"
		if isParseErr(r.Failed) {
			sig = "c02:legal-frame-rejected"
		}
		w.Violate(sig, fmt.Sprintf("%s: Result %q want %q (Failed=%v)", cse, tr(r.Result), tr(want), r.Failed), cse)
		return
	}
	if (r.Failed != nil) != p.err {
		sig := "c02:rpc-error-not-marked-failed"
		if r.Failed != nil {
			sig = "c02:ok-reply-marked-failed"
		}
		if version == "1.1" && len(parts) > 1 {
			sig += ":chunked"
		}
		w.Violate(sig, fmt.Sprintf("%s: Failed=%v, payload carries rpc-error=%v", cse, r.Failed, p.err), cse)
	}
}

func tr(s string) string {
	if len(s) > 300 {
		return s[:150] + "…" + s[len(s)-100:]
	}
	return s
}

func partitions(b []byte, max int, f func([][]byte)) {
	n := len(b)
	if n <= 12 {
		for m := 0; m < 1<<(n-1); m++ {
			var parts [][]byte
			st := 0
			for i := 1; i < n; i++ {
				if m&(1<<(i-1)) != 0 {
					parts = append(parts, b[st:i])
					st = i
				}
			}
			f(append(parts, b[st:]))
		}
		return
	}
	f([][]byte{b})
	step := 1
	if n > 400 {
		step = 7
	}
	for i := 1; i < n; i += step {
		f([][]byte{b[:i], b[i:]})
		if max >= 3 {
			for j := i + 1; j < n; j += step {
				f([][]byte{b[:i], b[i:j], b[j:]})
			}
		}
	}
}

func legalScenario(p pl) sched.Scenario {
	return sched.Scenario{Name: "legal/" + p.name, Run: func(w *sched.W) {
		checkLegal(w, p, "1.0", nil, "asis")
		checkLegal(w, p, "1.0", nil, "lfboth")
		partitions([]byte(p.xml), 3, func(parts [][]byte) {
			for _, wrap := range []string{"asis", "trimmed"} {
				checkLegal(w, p, "1.1", parts, wrap)
			}
		})
	}}
}

// ---- leg 2: all byte strings ------------------------------------------------------------------

var sigma = []byte{'#', '\n', '0', '1', '2', '9', '-', 'a', '<', ' '}

// classify is the reference: LEGAL (with payload), MALFORMED (in the sense the property lists), or
// DONTCARE.
func classify(in []byte) (class string, payload []byte, why string) {
	t := bytes.TrimSpace(in)
	if p, err := dev.StrictDecode11(append(append([]byte("\n"), t...), '\n')); err == nil {
		return "LEGAL", p, ""
	}
	// structural walk with the leniency the library documents (newlines between chunks ignored)
	pos := 0
	if len(t) == 0 || t[0] != '#' {
		return "DONTCARE", nil, "no chunk marker at start"
	}
	sawChunk := false
	for pos < len(t) {
		if t[pos] == '\n' {
			pos++
			continue
		}
		if t[pos] != '#' {
			return "DONTCARE", nil, "junk where a chunk marker should be"
		}
		pos++
		if pos >= len(t) {
			return "MALFORMED", nil, "nothing after '#'"
		}
		if t[pos] == '#' {
			if !sawChunk {
				return "DONTCARE", nil, "terminator before any chunk"
			}
			return "DONTCARE", nil, "terminated (tolerated shape)"
		}
		j := pos
		for j < len(t) && t[j] != '\n' && j-pos <= 11 {
			j++
		}
		field := t[pos:j]
		if j >= len(t) || t[j] != '\n' {
			return "MALFORMED", nil, "size field not terminated"
		}
		if len(field) == 0 {
			return "MALFORMED", nil, "empty size"
		}
		for _, c := range field {
			if c < '0' || c > '9' {
				return "MALFORMED", nil, "non-numeric size"
			}
		}
		if len(field) > 10 {
			return "MALFORMED", nil, "oversized size field"
		}
		n, _ := strconv.ParseUint(string(field), 10, 64)
		if n > 4294967295 {
			return "MALFORMED", nil, "oversized size"
		}
		if field[0] == '0' {
			return "DONTCARE", nil, "zero / leading-zero size"
		}
		pos = j + 1
		if pos+int(n) > len(t) {
			return "MALFORMED", nil, "declared size exceeds data"
		}
		pos += int(n)
		sawChunk = true
	}
	return "MALFORMED", nil, "no terminator"
}

func checkRaw(w *sched.W, in []byte, tag string) {
	class, payload, why := classify(in)
	r, pan := record("1.1", in)
	cse := fmt.Sprintf("%s raw=%q", tag, in)
	nt := ""
	if class != "DONTCARE" {
		nt = cse
	}
	w.Case(class+":"+why, nt)
	if pan != "" {
		w.Violate(panicSig(pan)+":raw", fmt.Sprintf("%s (%s %s): %s", cse, class, why, pan), cse)
		return
	}
	if !isSubseq([]byte(r.Result), in) {
		w.Violate("c02:result-has-foreign-bytes", fmt.Sprintf("%s (%s %s): Result %q is not made of bytes of the input", cse, class, why, r.Result), cse)
		return
	}
	switch class {
	case "LEGAL":
		want := refPayload(string(payload))
		if r.Result != want || isParseErr(r.Failed) {
			w.Violate("c02:legal-raw-differs", fmt.Sprintf("%s: Result %q Failed=%v want %q", cse, r.Result, r.Failed, want), cse)
		}
	case "MALFORMED":
		if !isParseErr(r.Failed) {
			w.Violate("c02:malformed-accepted:"+strings.ReplaceAll(why, " ", "-"), fmt.Sprintf("%s (%s): accepted with Result %q Failed=%v", cse, why, r.Result, r.Failed), cse)
		}
	}
}

func rawScenario(first []byte, n int) sched.Scenario {
	return sched.Scenario{Name: fmt.Sprintf("raw/n=%d/first=%q", n, first), Run: func(w *sched.W) {
		buf := make([]byte, n)
		copy(buf, first)
		var rec func(i int)
		rec = func(i int) {
			checkRaw(w, buf[:i], "bare")
			checkRaw(w, append([]byte("\n#2\nab"), buf[:i]...), "after-chunk")
			if i == n {
				return
			}
			for _, c := range sigma {
				buf[i] = c
				rec(i + 1)
			}
		}
		rec(len(first))
	}}
}

// ---- leg 3: through the driver ----------------------------------------------------------------

type drvScn struct {
	p        pl
	version  string
	nparts   int // 1, 2 or 3 chunks (all cut positions on a grid)
	echo     bool
	maxChunk int
	env      int
}

func driverScenario(s drvScn) sched.Scenario {
	name := fmt.Sprintf("driver/%s/v=%s/parts=%d/echo=%v/chunk=%d/env=%d", s.p.name, s.version, s.nparts, s.echo, s.maxChunk, s.env)
	return sched.Scenario{Name: name, Run: func(w *sched.W) {
		body := []byte(s.p.xml)
		var cuts [][]int
		switch s.nparts {
		case 1:
			cuts = [][]int{nil}
		case 2:
			for i := 1; i < len(body); i += 1 + len(body)/40 {
				cuts = append(cuts, []int{i})
			}
		case 3:
			st := 1 + len(body)/12
			for i := 1; i < len(body); i += st {
				for j := i + 1; j < len(body); j += st {
					cuts = append(cuts, []int{i, j})
				}
			}
		}
		for _, cut := range cuts {
			cut := cut
			rd := cm.Ms
			if s.maxChunk > 0 {
				rd = 0
			}
			cfg := cm.Cfg()
			cfg.NoPreAlt = true
			cfg.NoIdleAlt = s.env == 0
			cfg.Horizon = 3 * time.Second
			w.Explore(cfg, sched.Bounds{Env: s.env}, func(e *sched.Env) {
				caps := []string{dev.Cap10}
				if s.version == "1.1" || s.version == "1.0p" {
					caps = append(caps, dev.Cap11) // "1.0p": the server offers both, the user asks for 1.0
				}
				srv := &dev.NCServer{Hello: dev.HelloDoc(caps, "9"), Echo: s.echo}
				srv.Behave = func(i int, req dev.NCReq) (string, dev.NCBehavior) { return s.p.xml, dev.ReplyNow }
				lfHash := strings.Contains(s.p.xml, "\n##") // the framed reply has LF ## before its terminator (known finding)
				srv.Chunks = func(i int, b []byte) [][]byte {
					var parts [][]byte
					st := 0
					for _, c := range cut {
						parts = append(parts, b[st:c])
						st = c
					}
					parts = append(parts, b[st:])
					for _, pt := range parts {
						if bytes.HasPrefix(pt, []byte("##")) { // chunk data starting with ## follows the header's LF
							lfHash = true
						}
					}
					return parts
				}
				tr := dev.NewFake(e, srv)
				srv.Out = tr.Inject
				tr.MaxChunk, tr.Cuts, tr.NextEnd = s.maxChunk, s.env > 0, srv.NextEnd
				var r *response.NetconfResponse
				var err, openErr error
				e.Go("client", func() {
					nopts := cm.BaseOpts(tr, rd, 200*cm.Ms, 0)
					if s.version == "1.0p" {
						nopts = append(nopts, options.WithNetconfPreferredVersion("1.0"))
					}
					d, nerr := netconf.NewDriver("dev", nopts...)
					if nerr != nil {
						openErr = nerr
						return
					}
					if openErr = d.Open(); openErr != nil {
						return
					}
					e.OpenWindow()
					r, err = d.Get("")
				})
				e.OnFinish(func() {
					cse := fmt.Sprintf("cut=%v", cut)
					if openErr != nil || e.Verdict != "" {
						e.Violate("c02:driver-session-failed", "%s open=%v verdict=%s %s", cse, openErr, e.Verdict, e.HangInfo)
						return
					}
					if err != nil || r == nil {
						sig := "c02:driver-reply-lost"
						if lfHash {
							sig = "c02:driver-framing-fooled-by-LF##-in-data"
						}
						if strings.Contains(s.p.xml, "\r") {
							sig = "c02:driver-strips-carriage-returns-from-data"
						}
						e.Violate(sig, "%s: Get failed: %v", cse, err)
						return
					}
					e.Observe("%s failed=%v", cse, r.Failed != nil)
					want := refPayload(s.p.xml)
					if r.Result != want {
						sig := "c02:driver-result-differs"
						if lfHash {
							sig = "c02:driver-framing-fooled-by-LF##-in-data"
						}
						if strings.Contains(s.p.xml, "\r") {
							sig = "c02:driver-strips-carriage-returns-from-data"
						}
						e.Violate(sig, "%s: Result %q want %q (Failed=%v)", cse, tr2(r.Result), tr2(want), r.Failed)
						return
					}
					if (r.Failed != nil) != s.p.err {
						e.Violate("c02:driver-failed-flag", "%s: Failed=%v but rpc-error=%v", cse, r.Failed, s.p.err)
					}
				})
			})
		}
	}}
}

func tr2(s string) string { return tr(s) }

func scenarios(tier string) []sched.Scenario {
	var out []sched.Scenario
	for _, p := range payloads {
		out = append(out, legalScenario(p))
	}
	n := 7
	if tier == "thorough" {
		n = 8
	}
	for _, a := range sigma {
		for _, b := range sigma {
			out = append(out, rawScenario([]byte{a, b}, n))
		}
	}
	out = append(out, sched.Scenario{Name: "raw/short", Run: func(w *sched.W) {
		checkRaw(w, nil, "bare")
		for _, a := range sigma {
			checkRaw(w, []byte{a}, "bare")
			checkRaw(w, append([]byte("\n#2\nab"), a), "after-chunk")
		}
	}})
	drv := []pl{payloads[5], payloads[6], payloads[7], payloads[8], payloads[10], payloads[12], payloads[14], {"nlhashw", okReply("<a>x\n#2\ny\n##z</a>"), false}, hashLine,
		{"hashend", okReply("<d>window ##\nnext ##\n</d>"), false},
		{"crlf", okReply("<d>line one\r\nline two\r\n</d>"), false}} // carriage returns are data, and counted in chunk sizes // '##' ends a line without starting one: only a search anchored at a line start of the whole buffer tells it from the terminator
	for _, p := range drv {
		for _, v := range []string{"1.0", "1.0p", "1.1"} {
			for _, echo := range []bool{false, true} {
				for _, np := range []int{1, 2, 3} {
					if v != "1.1" && np > 1 {
						continue
					}
					for _, mc := range []int{0, 1, 7} {
						env := 0
						if mc == 0 && np == 1 {
							env = 1
						}
						if tier != "thorough" && np == 3 && mc != 0 {
							continue
						}
						out = append(out, driverScenario(drvScn{p, v, np, echo, mc, env}))
					}
				}
			}
		}
	}
	return out
}

func TestCheck(t *testing.T) {
	sched.Main(t, sched.Check{
		ID:    "C02",
		Level: "exploration",
		Rule: "leg 1: 18 payloads x every partition into chunks (all 2^(n-1) for payloads <=12 bytes, every 2- and 3-chunk partition on a grid otherwise) x {with, without trailing LF} + 1.0 framing, through response.NetconfResponse.Record; " +
			"leg 2: every byte string over {#,LF,0,1,2,9,-,a,<,space} up to the length bound, bare and after a legal chunk, classified LEGAL / MALFORMED (cases the property lists) / don't-care by an independent RFC 6242 reference; " +
			"leg 3: payload subset x chunk partitions x read presets (+single cuts) x version x echo through netconf.Driver.Get over the server model; distinct_nontrivial = distinct legal/malformed cases + distinct driver executions",
		Assumptions: []string{
			"outer whitespace of a message is ignored (the driver hands messages over with or without the final LF)",
			"zero and leading-zero chunk sizes, data after the terminator and junk between chunks are don't-care (the property does not list them)",
			"ErrorMessages lists are not judged (not in the statement); Failed is",
		},
		Scenarios: scenarios,
		Budget:    map[string]time.Duration{"quick": 5 * time.Minute, "thorough": 60 * time.Minute},
	})
}

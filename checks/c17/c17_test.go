// C17 — every advertised platform definition loads and drives a matching device.
package c17

import (
	"fmt"
	"reflect"
	"regexp"
	"sort"
	"strings"
	"testing"
	"time"

	"github.com/scrapli/scrapligo/assets"
	"github.com/scrapli/scrapligo/driver/network"
	"github.com/scrapli/scrapligo/driver/options"
	"github.com/scrapli/scrapligo/platform"
	"github.com/scrapli/scrapligo/util"
	"gopkg.in/yaml.v3"

	"verif/checks/cm"
	"verif/dev"
	"verif/sched"
)

// canonical prompts: what the vendor's device shows at each level (independent ground truth,
// written by hand; every one is also accepted by the pinned definition).
var canon = map[string]map[string]string{
	"arista_eos":         {"exec": "eos1>", "privilege-exec": "eos1#", "configuration": "eos1(config)#"},
	"aruba_wlc":          {"exec": "(aruba) >", "privilege-exec": "(aruba) #", "configuration": "(aruba) (config)#", "tclsh": "aruba(tcl)#"},
	"cisco_iosxe":        {"exec": "router>", "privilege-exec": "router#", "configuration": "router(config)#", "tclsh": "router(tcl)#"},
	"cisco_iosxr":        {"exec": "RP/0/RP0/CPU0:xr1#", "configuration": "RP/0/RP0/CPU0:xr1(config)#", "configuration-exclusive": "RP/0/RP0/CPU0:xr1(config)#", "run": "[xr-vm_node0_RP0_CPU0:~]$"},
	"cisco_nxos":         {"exec": "nxos-1>", "privilege-exec": "nxos-1#", "configuration": "nxos-1(config)#", "tclsh": "nxos-1-tcl#"},
	"cumulus_linux":      {"exec": "cumulus@leaf01:mgmt:~$", "configuration": "root@leaf01:mgmt:/home/cumulus#"},
	"cumulus_vtysh":      {"linux": "cumulus@leaf01:mgmt:~$", "exec": "leaf01#", "configuration": "leaf01(config)#"},
	"hp_comware":         {"exec": "<HPE>", "configuration": "[HPE]"},
	"huawei_vrp":         {"exec": "<HUAWEI>", "configuration": "[HUAWEI]"},
	"ipinfusion_ocnos":   {"linux": "root@OcNOS:~#", "exec": "OcNOS>", "privilege-exec": "OcNOS#", "configuration": "OcNOS(config)#"},
	"juniper_junos":      {"exec": "admin@vsrx>", "configuration": "admin@vsrx#", "configuration-exclusive": "admin@vsrx#", "configuration-private": "admin@vsrx#", "shell": "admin@vsrx:RE:0%", "root-shell": "root@vsrx:RE:0%"},
	"nokia_srl":          {"exec": "--{ running }--[  ]--\nA:srl1#", "configuration": "--{ candidate private private-admin }--[  ]--\nA:srl1#"},
	"nokia_sros":         {"exec": "[/]\nA:admin@sros1#", "configuration": "(ex)[/]\nA:admin@sros1#", "configuration-with-path": "(ex)[/configure router \"Base\"]\nA:admin@sros1#"},
	"nokia_sros_classic": {"configuration": "A:sros1#"},
	"paloalto_panos":     {"exec": "admin@PA-VM>", "configuration": "admin@PA-VM#"},
	"ruijie_rgos":        {"exec": "ruijie>", "privilege-exec": "ruijie#", "configuration": "ruijie(config)#", "tclsh": "ruijie(tcl)#"},
	"vyatta_vyos":        {"exec": "vyos@vyos:~$", "configuration": "vyos@vyos#"},
}

// password prompts shown by the device when escalating into an authenticated level
var pwPrompt = map[string]string{
	"arista_eos": "Password: ", "aruba_wlc": "Password: ", "cisco_iosxe": "Password: ", "cisco_nxos": "Password: ", "ruijie_rgos": "Password: ",
	"cumulus_linux": "[sudo] password for cumulus: ", "juniper_junos": "Password: ",
}

type rawLevel struct {
	Name           string   `yaml:"name"`
	Pattern        string   `yaml:"pattern"`
	NotContains    []string `yaml:"not-contains"`
	PreviousPriv   string   `yaml:"previous-priv"`
	Deescalate     string   `yaml:"deescalate"`
	Escalate       string   `yaml:"escalate"`
	EscalateAuth   bool     `yaml:"escalate-auth"`
	EscalatePrompt string   `yaml:"escalate-prompt"`
}

type rawPlatform struct {
	DriverType         string                   `yaml:"driver-type"`
	FailedWhenContains []string                 `yaml:"failed-when-contains"`
	OnOpen             []map[string]interface{} `yaml:"on-open"`
	OnClose            []map[string]interface{} `yaml:"on-close"`
	PrivilegeLevels    map[string]*rawLevel     `yaml:"privilege-levels"`
	Default            string                   `yaml:"default-desired-privilege-level"`
	NetworkOnOpen      []map[string]interface{} `yaml:"network-on-open"`
	NetworkOnClose     []map[string]interface{} `yaml:"network-on-close"`
}

type rawDef struct {
	PlatformType string                  `yaml:"platform-type"`
	Default      *rawPlatform            `yaml:"default"`
	Variants     map[string]*rawPlatform `yaml:"variants"`
}

func loadRaw(file string) (*rawDef, error) {
	b, err := assets.Assets.ReadFile("platforms/" + file)
	if err != nil {
		return nil, err
	}
	d := &rawDef{}
	return d, yaml.Unmarshal(b, d)
}

func embeddedFiles() []string {
	es, _ := assets.Assets.ReadDir("platforms")
	var out []string
	for _, e := range es {
		if strings.HasSuffix(e.Name(), ".yaml") && e.Name() != "example.yaml" {
			out = append(out, e.Name())
		}
	}
	sort.Strings(out)
	return out
}

func matches(l *network.PrivilegeLevel, prompt string) bool {
	for _, nc := range l.NotContains {
		if strings.Contains(prompt, nc) {
			return false
		}
	}
	re, err := regexp.Compile(l.Pattern)
	return err == nil && re.MatchString(prompt)
}

// ---- static oracle ------------------------------------------------------------------------------

func staticNames(w *sched.W) {
	names := platform.GetPlatformNames()
	files := embeddedFiles()
	fileSet := map[string]bool{}
	for _, f := range files {
		fileSet[strings.TrimSuffix(f, ".yaml")] = true
	}
	nameSet := map[string]bool{}
	for _, n := range names {
		nameSet[n] = true
		w.Case("", "name "+n)
		if !fileSet[n] {
			w.Violate("c17:advertised-name-without-embedded-file:"+n, fmt.Sprintf("platform.GetPlatformNames() lists %q but there is no assets/platforms/%s.yaml (embedded: %v)", n, n, files), n)
		}
		tr, _ := transportFor(nil)
		p, err := platform.NewPlatform(n, "host", options.WithCustomTransport(tr))
		if err != nil {
			w.Violate("c17:advertised-name-does-not-load:"+n, fmt.Sprintf("NewPlatform(%q): %v", n, err), n)
			continue
		}
		if p.GetPlatformType() != n {
			w.Violate("c17:platform-type-differs-from-name", fmt.Sprintf("%q declares platform-type %q", n, p.GetPlatformType()), n)
		}
	}
	for _, f := range files {
		n := strings.TrimSuffix(f, ".yaml")
		w.Case("", "file "+f)
		if !nameSet[n] {
			w.Violate("c17:embedded-file-not-advertised:"+n, fmt.Sprintf("assets/platforms/%s is embedded but %q is not in GetPlatformNames()", f, n), n)
		}
	}
}

func transportFor(e *sched.Env) (*dev.FakeTransport, *dev.CLIDevice) {
	d := dev.NewCLI("x", &dev.Mode{Name: "x", Prompt: ">"})
	return &dev.FakeTransport{Dev: d, StallAt: -1, LossAt: -1, WriteErrAt: -1}, d
}

var knownOps = map[string][]string{
	"channel.write": {"input"}, "channel.return": nil, "acquire-priv": nil, "driver.send-command": {"command"},
}

func checkOnX(w *sched.W, tag string, steps []map[string]interface{}, network bool) {
	for i, s := range steps {
		op, ok := s["operation"].(string)
		if !ok {
			w.Violate("c17:onx-operation-not-a-string", fmt.Sprintf("%s step %d: %v", tag, i, s), tag)
			continue
		}
		req, known := knownOps[op]
		if !known || (!network && (op == "acquire-priv" || op == "driver.send-command")) {
			w.Violate("c17:onx-unknown-operation", fmt.Sprintf("%s step %d: operation %q", tag, i, op), tag)
			continue
		}
		for _, k := range req {
			if _, ok := s[k].(string); !ok {
				w.Violate("c17:onx-argument-type", fmt.Sprintf("%s step %d (%s): %q must be a string, is %T", tag, i, op, k, s[k]), tag)
			}
		}
		if t, has := s["target"]; has {
			if _, ok := t.(string); !ok {
				w.Violate("c17:onx-argument-type", fmt.Sprintf("%s step %d: target must be a string", tag, i), tag)
			}
		}
		if r, has := s["redacted"]; has {
			if _, ok := r.(bool); !ok {
				w.Violate("c17:onx-argument-type", fmt.Sprintf("%s step %d: redacted must be a bool", tag, i), tag)
			}
		}
	}
}

func staticDefinition(w *sched.W, file string) {
	name := strings.TrimSuffix(file, ".yaml")
	raw, err := loadRaw(file)
	if err != nil {
		w.Violate("c17:definition-unparsable", fmt.Sprintf("%s: %v", file, err), file)
		return
	}
	check := func(tag string, rp *rawPlatform, variant string) {
		w.Case("", tag)
		tr, _ := transportFor(nil)
		var p *platform.Platform
		var err error
		func() {
			defer func() {
				if r := recover(); r != nil {
					err = fmt.Errorf("PANIC: %v", r)
				}
			}()
			if variant == "" {
				p, err = platform.NewPlatform(name, "host", options.WithCustomTransport(tr))
			} else {
				p, err = platform.NewPlatformVariant(name, variant, "host", options.WithCustomTransport(tr))
			}
		}()
		if err != nil {
			w.Violate("c17:definition-does-not-load:"+name, fmt.Sprintf("%s: %v", tag, err), tag)
			return
		}
		var nd *network.Driver
		switch rp.DriverType {
		case "network":
			nd, err = p.GetNetworkDriver()
			if err != nil {
				w.Violate("c17:declared-driver-type-not-built", fmt.Sprintf("%s declares network: %v", tag, err), tag)
				return
			}
			if _, gerr := p.GetGenericDriver(); gerr == nil {
				w.Violate("c17:declared-driver-type-not-built", tag+": generic driver also built", tag)
			}
		case "generic":
			if _, err = p.GetGenericDriver(); err != nil {
				w.Violate("c17:declared-driver-type-not-built", fmt.Sprintf("%s declares generic: %v", tag, err), tag)
			}
			return
		default:
			w.Violate("c17:unknown-driver-type", fmt.Sprintf("%s: %q", tag, rp.DriverType), tag)
			return
		}
		// the driver carries exactly the definition's sections
		lv := nd.PrivilegeLevels
		if len(lv) != len(rp.PrivilegeLevels) {
			w.Violate("c17:levels-differ-from-definition", fmt.Sprintf("%s: driver has %d levels, definition %d", tag, len(lv), len(rp.PrivilegeLevels)), tag)
		}
		for k, r := range rp.PrivilegeLevels {
			l := lv[k]
			if l == nil {
				w.Violate("c17:levels-differ-from-definition", fmt.Sprintf("%s: level %q missing", tag, k), tag)
				continue
			}
			got := rawLevel{l.Name, l.Pattern, l.NotContains, l.PreviousPriv, l.Deescalate, l.Escalate, l.EscalateAuth, l.EscalatePrompt}
			if !reflect.DeepEqual(got, *r) {
				w.Violate("c17:levels-differ-from-definition", fmt.Sprintf("%s: level %q is %+v, definition says %+v", tag, k, got, *r), tag)
			}
			if r.Name != k {
				w.Violate("c17:level-name-differs-from-key", fmt.Sprintf("%s: key %q name %q", tag, k, r.Name), tag)
			}
		}
		if nd.DefaultDesiredPriv != rp.Default {
			w.Violate("c17:default-level-differs-from-definition", fmt.Sprintf("%s: %q vs %q", tag, nd.DefaultDesiredPriv, rp.Default), tag)
		}
		if strings.Join(nd.FailedWhenContains, "|") != strings.Join(rp.FailedWhenContains, "|") {
			w.Violate("c17:failed-when-differs-from-definition", fmt.Sprintf("%s: %q vs %q", tag, nd.FailedWhenContains, rp.FailedWhenContains), tag)
		}
		if (nd.OnOpen != nil) != (len(rp.NetworkOnOpen) > 0) || (nd.OnClose != nil) != (len(rp.NetworkOnClose) > 0) ||
			(nd.Driver.OnOpen != nil) != (len(rp.OnOpen) > 0) || (nd.Driver.OnClose != nil) != (len(rp.OnClose) > 0) {
			w.Violate("c17:onx-presence-differs-from-definition", tag, tag)
		}
		// one tree
		roots := 0
		for k, l := range rp.PrivilegeLevels {
			if l.PreviousPriv == "" {
				roots++
			} else if rp.PrivilegeLevels[l.PreviousPriv] == nil {
				w.Violate("c17:previous-priv-unknown", fmt.Sprintf("%s: level %q names previous-priv %q", tag, k, l.PreviousPriv), tag)
			}
			seen := map[string]bool{}
			for c := k; c != ""; c = rp.PrivilegeLevels[c].PreviousPriv {
				if seen[c] {
					w.Violate("c17:privilege-cycle", fmt.Sprintf("%s: cycle through %q", tag, c), tag)
					break
				}
				seen[c] = true
				if rp.PrivilegeLevels[c] == nil {
					break
				}
			}
		}
		if roots != 1 {
			w.Violate("c17:not-a-single-tree", fmt.Sprintf("%s: %d root levels", tag, roots), tag)
		}
		if rp.PrivilegeLevels[rp.Default] == nil {
			w.Violate("c17:default-level-unknown", fmt.Sprintf("%s: default desired level %q is not a level", tag, rp.Default), tag)
		}
		// patterns compile; canonical prompts match their own level and the joined pattern
		var pats []string
		for _, l := range rp.PrivilegeLevels {
			pats = append(pats, l.Pattern)
		}
		joined, jerr := regexp.Compile(strings.Join(pats, "|"))
		// the library joins the level patterns in map iteration order: every order is a possible behaviour, and
		// inline flags of one alternative extend over the alternatives to its right. Every order is checked,
		// with the prompt alone and after a line of output.
		if variant == "" && len(pats) <= 6 {
			sort.Strings(pats)
			perm := make([]string, 0, len(pats))
			used := make([]bool, len(pats))
			var rec func()
			rec = func() {
				if len(perm) == len(pats) {
					jp, err := regexp.Compile(strings.Join(perm, "|"))
					if err != nil {
						return
					}
					w.Case("", "")
					for k := range rp.PrivilegeLevels {
						cp, ok := canon[name][k]
						if !ok {
							continue
						}
						if !jp.MatchString(cp) || !jp.MatchString("some output\n"+cp) {
							w.Violate("c17:joined-pattern-order-dependent:"+name+"/"+k, fmt.Sprintf("%s: joined in the order %q the pattern does not find the prompt %q (alone: %v, after a line of output: %v)", tag, perm, cp, jp.MatchString(cp), jp.MatchString("some output\n"+cp)), tag)
						}
					}
					return
				}
				for i := range pats {
					if !used[i] {
						used[i] = true
						perm = append(perm, pats[i])
						rec()
						perm = perm[:len(perm)-1]
						used[i] = false
					}
				}
			}
			rec()
		}
		for k, l := range rp.PrivilegeLevels {
			if _, err := regexp.Compile(l.Pattern); err != nil {
				w.Violate("c17:pattern-does-not-compile", fmt.Sprintf("%s: level %q: %v", tag, k, err), tag)
				continue
			}
			if l.EscalatePrompt != "" {
				if _, err := regexp.Compile(l.EscalatePrompt); err != nil {
					w.Violate("c17:escalate-prompt-does-not-compile", fmt.Sprintf("%s: level %q: %v", tag, k, err), tag)
				} else if l.EscalateAuth {
					if pw, ok := pwPrompt[name]; ok && !regexp.MustCompile(l.EscalatePrompt).MatchString(pw) {
						w.Violate("c17:password-prompt-not-matched", fmt.Sprintf("%s: level %q escalate-prompt %q does not match %q", tag, k, l.EscalatePrompt, pw), tag)
					}
				}
			}
			if variant != "" {
				continue
			}
			cp, ok := canon[name][k]
			if !ok {
				w.Violate("c17:harness-no-canonical-prompt", fmt.Sprintf("%s: level %q has no canonical prompt in the harness table", tag, k), tag)
				continue
			}
			if !matches(lv[k], cp) {
				w.Violate("c17:canonical-prompt-not-matched:"+name+"/"+k, fmt.Sprintf("%s: level %q pattern %q (not-contains %v) does not accept the canonical prompt %q", tag, k, l.Pattern, l.NotContains, cp), tag)
			}
			if jerr == nil && !joined.MatchString(cp) {
				w.Violate("c17:joined-pattern-misses-prompt:"+name+"/"+k, fmt.Sprintf("%s: joined pattern does not match %q", tag, cp), tag)
			}
			if nd.Channel.PromptPattern == nil || !nd.Channel.PromptPattern.MatchString(cp) {
				w.Violate("c17:installed-pattern-misses-prompt:"+name+"/"+k, fmt.Sprintf("%s: the driver's installed prompt pattern does not match %q", tag, cp), tag)
			}
		}
		checkOnX(w, tag+" on-open", rp.OnOpen, false)
		checkOnX(w, tag+" on-close", rp.OnClose, false)
		checkOnX(w, tag+" network-on-open", rp.NetworkOnOpen, true)
		checkOnX(w, tag+" network-on-close", rp.NetworkOnClose, true)
	}
	check(name, raw.Default, "")
	for vn, v := range raw.Variants {
		// a variant replaces exactly the sections it defines
		merged := *raw.Default
		if v.DriverType != "" {
			merged.DriverType = v.DriverType
		}
		if len(v.FailedWhenContains) > 0 {
			merged.FailedWhenContains = v.FailedWhenContains
		}
		if v.OnOpen != nil {
			merged.OnOpen = v.OnOpen
		}
		if v.OnClose != nil {
			merged.OnClose = v.OnClose
		}
		if len(v.PrivilegeLevels) > 0 {
			merged.PrivilegeLevels = v.PrivilegeLevels
		}
		if v.Default != "" {
			merged.Default = v.Default
		}
		if v.NetworkOnOpen != nil {
			merged.NetworkOnOpen = v.NetworkOnOpen
		}
		if v.NetworkOnClose != nil {
			merged.NetworkOnClose = v.NetworkOnClose
		}
		check(name+"#"+vn, &merged, vn)
		// history: the default definition loaded after one of its variants is still the default definition
		check(name+" (after variant "+vn+")", raw.Default, "")
	}
	// history: two platforms of one name in one process do not share their driver
	tr1, _ := transportFor(nil)
	tr2, _ := transportFor(nil)
	p1, e1 := platform.NewPlatform(name, "host-one", options.WithCustomTransport(tr1))
	p2, e2 := platform.NewPlatform(name, "host-two", options.WithCustomTransport(tr2))
	if e1 == nil && e2 == nil {
		w.Case("", name+" two hosts")
		hostOf := func(p *platform.Platform) string {
			if nd, err := p.GetNetworkDriver(); err == nil {
				return nd.Transport.GetHost()
			}
			if gd, err := p.GetGenericDriver(); err == nil {
				return gd.Transport.GetHost()
			}
			return "?"
		}
		if h1, h2 := hostOf(p1), hostOf(p2); h1 != "host-one" || h2 != "host-two" {
			w.Violate("c17:platforms-share-state", fmt.Sprintf("%s: two platforms built for host-one and host-two yield drivers for %q and %q", name, h1, h2), name+" two hosts")
		}
	}
}

// ---- dynamic oracle -----------------------------------------------------------------------------

func treeOf(name string, rp *rawPlatform) *cm.TreeDev {
	t := &cm.TreeDev{Levels: map[string]*network.PrivilegeLevel{}, Prompts: map[string]string{}, PwPrompt: map[string]string{}, Secret: cm.Secret, Commands: map[string]string{}}
	for k, r := range rp.PrivilegeLevels {
		t.Levels[k] = &network.PrivilegeLevel{Name: r.Name, Pattern: r.Pattern, NotContains: r.NotContains, PreviousPriv: r.PreviousPriv,
			Deescalate: r.Deescalate, Escalate: r.Escalate, EscalateAuth: r.EscalateAuth, EscalatePrompt: r.EscalatePrompt}
		t.Prompts[k] = canon[name][k]
		if r.EscalateAuth {
			t.PwPrompt[k] = pwPrompt[name]
		}
	}
	return t
}

func rootOf(rp *rawPlatform) string {
	for k, l := range rp.PrivilegeLevels {
		if l.PreviousPriv == "" {
			return k
		}
	}
	return ""
}

func onxLines(steps []map[string]interface{}) (cmds []string) {
	pending := ""
	for _, s := range steps {
		switch s["operation"] {
		case "driver.send-command":
			cmds = append(cmds, s["command"].(string))
		case "channel.write":
			pending += s["input"].(string)
		case "channel.return":
			cmds = append(cmds, pending)
			pending = ""
		}
	}
	return cmds
}

// reachable reports whether the unique path cur -> target only climbs into levels that have an
// escalate command.
func reachable(t *cm.TreeDev, cur, target string) bool {
	anc := map[string]bool{}
	for n := cur; n != ""; n = t.Levels[n].PreviousPriv {
		anc[n] = true
	}
	for n := target; n != "" && !anc[n]; n = t.Levels[n].PreviousPriv {
		if t.Levels[n].Escalate == "" {
			return false
		}
	}
	// going down needs a deescalate command on every level left
	tanc := map[string]bool{}
	for n := target; n != ""; n = t.Levels[n].PreviousPriv {
		tanc[n] = true
	}
	for n := cur; n != "" && !tanc[n]; n = t.Levels[n].PreviousPriv {
		if t.Levels[n].Deescalate == "" {
			return false
		}
	}
	return true
}

func dynamicScenario(file string) sched.Scenario {
	name := strings.TrimSuffix(file, ".yaml")
	return sched.Scenario{Name: "dynamic/" + name, Run: func(w *sched.W) {
		raw, err := loadRaw(file)
		if err != nil || raw.Default == nil || raw.Default.DriverType != "network" || canon[name] == nil {
			return // reported by the static leg
		}
		rp := raw.Default
		t := treeOf(name, rp)
		root := rootOf(rp)
		var levels []string
		for k := range rp.PrivilegeLevels {
			levels = append(levels, k)
		}
		sort.Strings(levels)
		type cell struct {
			cur, target string
			stale       bool // the driver's cached level wrongly says "target" (the device moved behind its back)
		}
		cells := []cell{{"", "", false}} // the open/close cell
		// open/close with a user option layered on the definition: another default desired level, which the
		// definition's own "acquire-priv" on-open/on-close steps (they name no target) must then go to
		hasAcq := false
		for _, st := range rp.NetworkOnOpen {
			if st["operation"] == "acquire-priv" && st["target"] == nil {
				hasAcq = true
			}
		}
		for _, l := range levels {
			if hasAcq && l != rp.Default && reachable(t, root, l) && reachable(t, l, rp.Default) {
				cells = append(cells, cell{"", l, false})
			}
		}
		for _, c := range levels {
			for _, g := range levels {
				if reachable(t, c, g) {
					cells = append(cells, cell{c, g, false})
					// a stale cache must not be trusted over the prompt -- where the current prompt is matched by its own level only
					amb := 0
					for _, o := range levels {
						if matches(t.Levels[o], t.Prompts[c]) {
							amb++
						}
					}
					if c != g && amb == 1 {
						cells = append(cells, cell{c, g, true})
					}
				} else {
					w.Extra("pairs_skipped_no_escalate_command", 1)
				}
			}
		}
		for _, c := range cells {
			c := c
			tag := fmt.Sprintf("%s cur=%s target=%s", name, c.cur, c.target)
			if c.stale {
				tag += " stale-cache"
			}
			if r := w.Replaying(); r != nil && r.Case != tag {
				continue
			}
			cfg := cm.Cfg()
			cfg.NoPreAlt, cfg.NoIdleAlt = true, true
			cfg.Horizon = 30 * time.Second
			w.SetCase(tag)
			w.Explore(cfg, sched.Bounds{}, func(e *sched.Env) {
				d := t.Build(root)
				d.NoFirst = false
				for _, m := range d.Modes {
					if m.OnLine != nil && !strings.HasPrefix(m.Name, "pw:") {
						inner := m.OnLine
						m.OnLine = func(dd *dev.CLIDevice, line string) dev.Reply {
							r := inner(dd, line)
							if r.Wrong {
								return dev.Reply{Out: ""} // unknown lines are ordinary commands of the platform
							}
							return r
						}
					}
				}
				tr := dev.NewFake(e, d)
				var openErr, acqErr, closeErr error
				mark, mark2 := 0, 0
				e.Go("client", func() {
					popts := append(cm.BaseOpts(tr, cm.Ms, time.Second, 0), options.WithAuthSecondary(cm.Secret))
					if c.cur == "" && c.target != "" {
						popts = append(popts, options.WithDefaultDesiredPriv(c.target))
					}
					p, err := platform.NewPlatform(name, "dev", popts...)
					if err != nil {
						openErr = err
						return
					}
					n, err := p.GetNetworkDriver()
					if err != nil {
						openErr = err
						return
					}
					if openErr = n.Open(); openErr != nil {
						return
					}
					mark = len(d.Lines)
					if c.cur != "" {
						d.Cur = c.cur
						n.CurrentPriv = c.cur
						if c.stale {
							n.CurrentPriv = c.target
						}
						acqErr = n.AcquirePriv(c.target)
						mark2 = len(d.Lines)
						return
					}
					closeErr = n.Close()
				})
				e.OnFinish(func() {
					vio := func(sig, f string, a ...interface{}) { e.Violate(sig, "["+tag+"] "+f, a...) }
					if e.Verdict != "" {
						vio("c17:dynamic-hang:"+name, "%s %s", e.Verdict, e.HangInfo)
						return
					}
					if openErr != nil {
						vio("c17:open-failed:"+name, "Open against the definition-derived device failed: %v", openErr)
						return
					}
					nonEmpty := func(ls []dev.LineRec) []string {
						var out []string
						for _, l := range ls {
							if l.Line != "" {
								out = append(out, l.Line)
							}
						}
						return out
					}
					e.Observe("final=%s", d.Cur)
					if c.cur == "" {
						// open ran the on-open steps, close the on-close steps
						def := rp.Default
						if c.target != "" {
							def = c.target
						}
						want := append(t.Path(root, def), onxLines(rp.NetworkOnOpen)...)
						got := nonEmpty(d.Lines[:mark])
						if strings.Join(got, "|") != strings.Join(want, "|") {
							vio("c17:on-open-steps:"+name, "device received %q want %q", got, want)
						}
						wantC := onxLines(rp.NetworkOnClose)
						gotC := nonEmpty(d.Lines[mark:])
						if closeErr != nil || strings.Join(gotC, "|") != strings.Join(wantC, "|") {
							vio("c17:on-close-steps:"+name, "close err=%v; device received %q want %q", closeErr, gotC, wantC)
						}
						return
					}
					if acqErr != nil {
						vio("c17:level-not-reachable:"+name, "AcquirePriv(%q) from %q: %v (device in %q, received %q)", c.target, c.cur, acqErr, d.Cur, nonEmpty(d.Lines[mark:mark2]))
						return
					}
					final := d.Cur
					okFinal := final == c.target
					// the driver was told its current level (cache correct), so even a level whose prompt the target's
					// pattern also accepts is a different level to leave: the device must end in the target itself
					if !okFinal {
						vio("c17:wrong-level-reached:"+name, "AcquirePriv(%q) from %q ended in %q (received %q)", c.target, c.cur, final, nonEmpty(d.Lines[mark:mark2]))
					}
				})
			})
		}
	}}
}

func scenarios(tier string) []sched.Scenario {
	out := []sched.Scenario{{Name: "static/names", Run: staticNames}}
	for _, f := range embeddedFiles() {
		f := f
		out = append(out, sched.Scenario{Name: "static/" + f, Run: func(w *sched.W) { staticDefinition(w, f) }})
		out = append(out, dynamicScenario(f))
	}
	return out
}

var _ = util.ErrPlatformError

func TestCheck(t *testing.T) {
	sched.Main(t, sched.Check{
		ID:    "C17",
		Level: "exploration",
		Rule:  "exhaustive: every name in platform.GetPlatformNames(), every embedded assets/platforms/*.yaml (except the documentation-only example.yaml), every variant; static: name<->file bijection, platform-type, declared driver type, level fields equal to the YAML parsed independently, single tree, default level, every pattern/escalate-prompt compiles, a hand-written canonical prompt per level matched by its own level (with not-contains), by the joined pattern in every join order (alone and after a line of output) and by the pattern the driver installs, on-open/on-close steps well-formed, variants replace exactly the sections they define, the default loaded again after each variant is unchanged, two platforms of one name keep their own drivers; dynamic: a device model built from the definition (one mode per level, canonical prompts, transitions = escalate/deescalate strings, password prompt where escalate-auth): Open runs the on-open steps, Close the on-close steps, and for every ordered (current, target) pair whose path only climbs into levels that have an escalate command AcquirePriv (driver told its current level) ends in the target itself",
		Assumptions: []string{
			"canonical prompts are the harness's ground truth (about 55 entries); a mismatch on the pinned tree was classified by hand",
			"the driver's cached level is correct when the device is put into `current` (otherwise Go map iteration order decides between levels with overlapping patterns)",
			"lines the definition does not name are ordinary commands of the platform and are accepted by the device model",
		},
		Scenarios: scenarios,
		Budget:    map[string]time.Duration{"quick": 4 * time.Minute, "thorough": 10 * time.Minute},
	})
}

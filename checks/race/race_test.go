// Package race is the free-running race-detector pass (E-RACE) for C07 and C20: the same session
// bodies as the model-checked scenarios, built with -race, without the cooperative scheduler (whose
// hand-offs would be happens-before edges and blind the detector). Hooks become tiny random sleeps.
package race

import (
	"fmt"
	"io"
	"math/rand"
	"os"
	"runtime"
	"sync"
	"testing"
	"time"

	"github.com/scrapli/scrapligo/driver/generic"
	"github.com/scrapli/scrapligo/driver/netconf"
	"github.com/scrapli/scrapligo/driver/options"
	"github.com/scrapli/scrapligo/util"
	"github.com/scrapli/scrapligo/util/verifhook"

	"verif/checks/cm"
	"verif/dev"
)

type jitter struct {
	mu    sync.Mutex
	r     *rand.Rand
	sites map[string]int
}

func (j *jitter) nap(n string) {
	j.mu.Lock()
	j.sites[n]++
	d := time.Duration(j.r.Intn(60)) * time.Microsecond
	j.mu.Unlock()
	if d > 0 {
		time.Sleep(d)
	} else {
		runtime.Gosched()
	}
}
func (j *jitter) Point(n string)                  { j.nap(n) }
func (j *jitter) Spin(n string)                   { j.nap(n) }
func (j *jitter) Acquire(n string, _ interface{}) { j.nap(n) }

var jit = &jitter{sites: map[string]int{}}

func TestMain(m *testing.M) {
	seed, _ := fmt.Sscan(os.Getenv("VERIF_SEED"))
	jit.r = rand.New(rand.NewSource(int64(seed) + 12345))
	verifhook.Handler = jit
	os.Exit(m.Run())
}

const rd = 200 * time.Microsecond

func cliSession(state string, mode dev.CloseMode) {
	d := cm.StdCLI("privilege-exec", false)
	tr := dev.NewFree(d)
	tr.OnClose = mode
	g, err := generic.NewDriver("dev", options.WithCustomTransport(tr), options.WithReadDelay(rd), options.WithTimeoutOps(20*time.Millisecond))
	if err != nil {
		return
	}
	if err := g.Open(); err != nil {
		return // (a 20ms real-time timeout can expire on a loaded machine: not an observation about the library)
	}
	_, _ = g.GetPrompt()
	_, _ = g.SendCommand(cm.Cmd1)
	switch state {
	case "data-arriving":
		tr.Inject([]byte("\nlog line\nrouter#"))
	case "eof-seen":
		tr.Lose(io.EOF, true)
		time.Sleep(3 * rd)
		_, _ = g.GetPrompt()
	case "eof-pending":
		tr.Lose(io.EOF, true)
	case "eio-consumed":
		tr.Lose(dev.ErrEIO, false)
		_, _ = g.SendCommand(cm.Cmd2)
		time.Sleep(3 * rd)
	case "eio-unconsumed":
		tr.Lose(dev.ErrEIO, true)
		time.Sleep(3 * rd)
	case "eio-pending":
		tr.Lose(dev.ErrEIO, true)
	case "inflight":
		go func() { _, _ = g.SendCommand(cm.Cmd2) }()
	}
	if state == "second-conc" {
		var wg sync.WaitGroup
		for i := 0; i < 2; i++ {
			wg.Add(1)
			go func() { defer wg.Done(); _ = g.Close() }()
		}
		waitOrHang(&wg)
	} else {
		_ = g.Close()
		if state == "second-seq" {
			_ = g.Close()
		}
	}
	_, _ = g.Channel.Read()
	time.Sleep(2 * rd)
}

func ncSession(state string) {
	srv := &dev.NCServer{Hello: dev.HelloDoc([]string{dev.Cap10, dev.Cap11}, "3")}
	tr := dev.NewFree(srv)
	srv.Out = tr.Inject
	d, err := netconf.NewDriver("dev", options.WithCustomTransport(tr), options.WithReadDelay(rd), options.WithTimeoutOps(20*time.Millisecond))
	if err != nil {
		return
	}
	if err := d.Open(); err != nil {
		_ = d.Close()
		return // (real-time timeout under load)
	}
	_, _ = d.Get("")
	_, _ = d.Lock("running")
	switch state {
	case "eof-seen":
		tr.Lose(io.EOF, true)
		time.Sleep(3 * rd)
		_, _ = d.Get("")
	case "eof-pending":
		tr.Lose(io.EOF, true)
	case "eio-unconsumed":
		tr.Lose(dev.ErrEIO, true)
		time.Sleep(3 * rd)
	case "inflight":
		go func() { _, _ = d.Get("") }()
	}
	if state == "second-conc" {
		// several closers released at the same moment
		var wg sync.WaitGroup
		start := make(chan struct{})
		for i := 0; i < 6; i++ {
			wg.Add(1)
			go func() { defer wg.Done(); <-start; _ = d.Close() }()
		}
		close(start)
		waitOrHang(&wg)
		return
	}
	_ = d.Close()
	if state == "second-seq" {
		_ = d.Close()
	}
	time.Sleep(2 * rd)
}

var states = []string{"idle", "data-arriving", "eof-seen", "eof-pending", "eio-consumed", "eio-unconsumed", "eio-pending", "second-seq", "second-conc", "inflight"}

func rounds() int {
	if os.Getenv("VERIF_TIER") == "thorough" {
		return 30
	}
	return 3
}

func TestC07(t *testing.T) {
	for _, procs := range []int{1, 2, 4, 16} {
		runtime.GOMAXPROCS(procs)
		for r := 0; r < rounds(); r++ {
			for _, st := range states {
				for _, m := range []dev.CloseMode{dev.CloseEOF, dev.CloseEIO} {
					cliSession(st, m)
				}
			}
			for _, st := range []string{"idle", "eof-seen", "eof-pending", "eio-unconsumed", "second-seq", "inflight"} {
				ncSession(st)
			}
			if procs > 1 {
				// several sessions of one process at the same time: state shared between connections without
				// synchronisation is a data race the detector sees here
				var wg sync.WaitGroup
				for k := 0; k < 2; k++ {
					wg.Add(2)
					go func() { defer wg.Done(); cliSession("idle", dev.CloseEOF) }()
					go func() { defer wg.Done(); ncSession("idle") }()
				}
				waitOrHang(&wg)
				for k := 0; k < 40; k++ {
					ncSession("second-conc")
					cliSession("second-conc", dev.CloseEOF)
				}
			}
		}
	}
	jit.mu.Lock()
	fmt.Printf("@@SITES %d distinct hook sites reached\n", len(jit.sites))
	jit.mu.Unlock()
}

func TestC20(t *testing.T) {
	for _, procs := range []int{1, 2, 4, 16} {
		runtime.GOMAXPROCS(procs)
		for r := 0; r < rounds()*6; r++ {
			q := util.NewQueue()
			var wg sync.WaitGroup
			wg.Add(2)
			go func() {
				defer wg.Done()
				for i := 0; i < 20; i++ {
					q.Enqueue([]byte{byte('a' + i)})
				}
			}()
			go func() {
				defer wg.Done()
				var last []byte
				for i := 0; i < 40; i++ {
					switch i % 4 {
					case 0:
						if b := q.Dequeue(); b != nil {
							last = b
						}
					case 1:
						_ = q.GetDepth()
					case 2:
						if last != nil {
							q.Requeue(last)
							last = nil
						}
					case 3:
						_ = q.DequeueAll()
					}
				}
			}()
			waitOrHang(&wg)
		}
	}
}

// waitOrHang waits for the free-running goroutines of one round; a round takes milliseconds, so one that is
// still running after two minutes is stuck (deadlock): report it instead of sitting out the test timeout.
func waitOrHang(wg *sync.WaitGroup) {
	done := make(chan struct{})
	go func() { wg.Wait(); close(done) }()
	select {
	case <-done:
	case <-time.After(2 * time.Minute):
		buf := make([]byte, 1<<20)
		n := runtime.Stack(buf, true)
		fmt.Printf("@@HANG free-running round did not finish in 2m\n%s\n", buf[:n])
		os.Exit(3)
	}
}

// C05 — every blocking operation honours its timeout.
package c05

import (
	"fmt"
	"github.com/scrapli/scrapligo/response"
	"regexp"
	"strings"
	"testing"
	"time"

	"verif/checks/cm"
	"verif/sched"
)

// the time unit: read delay and scheduler tick. 4us keeps Close's grace period (readDelay *
// readDelay/1000 = 16us) below the connection-wide timeout, so that a failed Open (which closes
// the channel) can still be judged against its timeout.
const (
	u      = 4 * time.Microsecond
	tConn  = 8*u + u/2
	tSmall = 3*u + u/2
	tLarge = 20*u + u/2
	grace  = u * (u / 1000)
)

type setting struct {
	name     string
	override time.Duration // <0: none
}

var settings = []setting{{"conn", -1}, {"smaller", tSmall}, {"larger", tLarge}, {"zero", 0}}

type outcome struct {
	setupErr error
	began    bool
	base     int
	t0, t1   time.Duration
	returned bool
	res      string
	err      error
	// zero-timeout probe
	blockedAtProbe bool
	// recovery
	recRan    bool
	recRes    string
	recErr    error
	cleanLine bool
	sentEnd   int
	allOut    []byte
	lastAt    time.Duration
	lines     []string
}

func runOne(w *sched.W, op cm.OpDef, st setting, maxChunk int, stall int, b sched.Bounds) *outcome {
	var out *outcome
	rd := u
	if maxChunk > 0 {
		rd = 0
	}
	classes := []string{}
	if b.Pre > 0 {
		classes = []string{"chan.read", "chan.Read", "cb.", "nc."}
	}
	cfg := cm.Cfg(classes...)
	cfg.NoPreAlt = b.Pre == 0
	cfg.NoIdleAlt = b.Env == 0
	cfg.Tick = u
	cfg.Horizon = 60 * tConn
	cfg.Grace = 3*u + grace
	w.Explore(cfg, b, func(e *sched.Env) {
		o := &outcome{}
		out = o
		c := &cm.OpCtx{E: e, RD: rd, TConn: tConn}
		T := tConn
		if st.override > 0 {
			T = st.override
		}
		c.Begin = func() {
			o.began = true
			o.base = c.Tr.Sent()
			o.t0 = e.Now()
			if stall >= 0 {
				c.Tr.StallAt = o.base + stall
			}
			if resumeAt >= 0 && stall >= 0 {
				time.AfterFunc(resumeAt, func() {
					c.Tr.Release()
					e.Poke()
				})
			}
			if st.override == 0 && stall >= 0 {
				time.AfterFunc(3*tConn+u/10, func() {
					o.blockedAtProbe = !o.returned
					c.Tr.Release()
					e.Poke()
				})
			}
			e.OpenWindow()
		}
		e.Go("client", func() {
			if o.setupErr = op.Setup(c); o.setupErr != nil {
				return
			}
			c.Tr.MaxChunk = maxChunk
			c.Tr.Cuts = b.Env > 0
			o.res, o.err = op.Call(c, st.override)
			o.t1 = e.Now()
			o.returned = true
			o.lastAt = c.Tr.LastAt
			if c.CLI != nil {
				o.cleanLine = c.CLI.PendingLine() == ""
			}
			if op.Kind == "nc" && op.Recovery && o.err != nil && stall >= 0 && st.override != 0 && b.Pre == 0 && b.Env == 0 {
				// NETCONF: the late reply of the timed-out rpc arrives, the next rpc gets its own reply
				c.Tr.Release()
				o.recRan = true
				r, err := c.D.Lock("running")
				o.recErr = err
				o.recRes = cm.OutNext
				if r != nil && err == nil {
					in, out := midRe.FindSubmatch(r.Input), midRe.FindStringSubmatch(r.Result)
					own := fmt.Sprintf("<n>%d</n>", len(c.NC.Requests)-1)
					if in == nil || out == nil || string(in[1]) != out[1] || !strings.Contains(r.Result, own) {
						o.recRes = fmt.Sprintf("request %q got reply %q", r.Input, r.Result)
					}
				}
			}
			if op.Recovery && o.err != nil && stall >= 0 && o.cleanLine && st.override != 0 {
				c.Tr.Release()
				o.recRan = true
				var r *response.Response
				var err error
				if c.N != nil {
					// network driver: the command must also run at the default desired level, whatever
					// level the interrupted operation left the device in
					r, err = c.N.SendCommand(cm.NextCmd)
				} else {
					r, err = c.G.SendCommand(cm.NextCmd)
				}
				o.recErr = err
				if r != nil {
					o.recRes = r.Result
				}
			}
			_ = T
		})
		e.OnFinish(func() {
			if c.Tr != nil {
				o.sentEnd = c.Tr.Sent()
				o.allOut = c.Tr.AllOut
			}
			if c.CLI != nil {
				o.lines = c.CLI.NonEmptyLines()
			}
			if e.Verdict != "" {
				o.returned = false
				e.Observe("verdict=%s", e.Verdict)
			}
			e.Observe("ret=%v err=%s dt=%v rec=%v/%s", o.returned, cm.ErrClass(o.err), o.t1-o.t0, o.recRan, cm.ErrClass(o.recErr))
			judge(e, op, st, stall, o, hang(e), len(e.Choices) > 0 && sum(e.Choices) > 0)
		})
	})
	return out
}

var midRe = regexp.MustCompile(`message-id="(\d+)"`)

func minDur(a, b time.Duration) time.Duration {
	if a < b {
		return a
	}
	return b
}

func sum(c []int) int {
	n := 0
	for _, v := range c {
		n += v
	}
	return n
}

func hang(e *sched.Env) string {
	if e.Verdict != "" {
		return e.Verdict + ": " + e.HangInfo
	}
	return ""
}

// per-scenario facts measured by the dry run
type facts struct {
	L, Lmin int
}

var curFacts facts

// resumeAt: when >= 0 the stalled device resumes this long after the call started (phase of the
// catch-up relative to the timeout: "the timer lands first / the data lands first")
var resumeAt time.Duration = -1

func judge(e *sched.Env, op cm.OpDef, st setting, stall int, o *outcome, hung string, deviating bool) {
	tag := fmt.Sprintf("[%s/%s/stall=%d]", op.Name, st.name, stall)
	if o.setupErr != nil || !o.began {
		e.Violate("c05:setup-failed", "%s setup: %v (began=%v) %s", tag, o.setupErr, o.began, hung)
		return
	}
	if stall < 0 {
		// dry run: the complete operation must succeed with the expected result
		if !o.returned || o.err != nil {
			e.Violate("c05:complete-op-failed", "%s without a stall: returned=%v err=%v %s", tag, o.returned, o.err, hung)
		} else if op.Want != "" && o.res != op.Want {
			e.Violate("c05:complete-op-result", "%s result %q want %q", tag, o.res, op.Want)
		}
		return
	}
	T := tConn
	if st.override > 0 {
		T = st.override
	}
	if resumeAt >= 0 {
		// the device catches up around the timeout: success (with the right result) and a timeout
		// error are both fine, anything else (panic, hang, early error, wrong result) is not
		switch {
		case !o.returned:
			e.Violate("c05:resume-hang:"+op.Name, "%s device resumed %v after the call started (timeout %v) and the call never returned: %s", tag, resumeAt, T, hung)
		case o.err == nil && op.Want != "" && o.res != op.Want:
			e.Violate("c05:resume-result-differs", "%s resumed at %v: result %q want %q", tag, resumeAt, o.res, op.Want)
		case o.err != nil && o.t1-o.t0 < minDur(T, tConn)-time.Microsecond:
			e.Violate("c05:resume-early-error", "%s resumed at %v: error %v after only %v", tag, resumeAt, o.err, o.t1-o.t0)
		}
		return
	}
	lo, hi := T, T
	if op.ErrClass == "privilege|timeout" || strings.HasPrefix(op.Name, "network.SendConfigs") {
		// internal steps (prompt fetch, privilege change) run on the connection-wide timeout
		if tConn < lo {
			lo = tConn
		}
		if tConn > hi {
			hi = tConn
		}
	}
	slack := 5 * u
	if strings.HasSuffix(strings.Split(op.Name, "/")[0], ".Open") {
		slack += grace + 3*u // a failed open closes the channel, which waits for the read loop
	}
	mixed := lo != hi || op.ErrClass == "privilege|timeout" || strings.HasPrefix(op.Name, "network.SendConfigs")
	complete := stall >= curFacts.Lmin
	if st.override == 0 {
		// maximum timeout: must still be blocked long after the connection-wide timeout, and finish
		// correctly once the device continues
		if complete {
			return
		}
		if !o.blockedAtProbe && mixed && o.err != nil && o.t1-o.t0 >= tConn-time.Microsecond {
			return // an internal connection-wide step timed out: allowed for these operations
		}
		if !o.blockedAtProbe {
			e.Violate("c05:zero-timeout-not-maximum", "%s with timeout 0 the call returned before 3x the connection-wide timeout: err=%v dt=%v", tag, o.err, o.t1-o.t0)
			return
		}
		if !o.returned || o.err != nil {
			e.Violate("c05:zero-timeout-no-recovery", "%s after the device resumed: returned=%v err=%v %s", tag, o.returned, o.err, hung)
		} else if op.Want != "" && o.res != op.Want {
			e.Violate("c05:zero-timeout-result", "%s result %q want %q", tag, o.res, op.Want)
		}
		return
	}
	if !o.returned {
		e.Violate("c05:hang:"+op.Name, "%s did not return by %v (timeout %v): %s", tag, 60*tConn, T, hung)
		return
	}
	if o.err == nil {
		if !complete {
			e.Violate("c05:success-with-partial-output", "%s returned success %q although only %d of %d bytes (complete at %d) were delivered", tag, o.res, stall, curFacts.L, curFacts.Lmin)
		} else if op.Want != "" && o.res != op.Want {
			e.Violate("c05:result-differs", "%s result %q want %q", tag, o.res, op.Want)
		}
		return
	}
	if complete && !deviating {
		e.Violate("c05:complete-exchange-failed", "%s all %d bytes delivered but: %v", tag, stall, o.err)
		return
	}
	cls := cm.ErrClass(o.err)
	okCls := false
	for _, c := range strings.Split(op.ErrClass, "|") {
		if c == cls {
			okCls = true
		}
	}
	if !okCls {
		e.Violate("c05:wrong-error-class:"+op.Name, "%s error %v (class %s, want %s)", tag, o.err, cls, op.ErrClass)
	}
	dt := o.t1 - o.t0
	if dt < lo-time.Microsecond {
		e.Violate("c05:returned-before-timeout:"+st.name, "%s returned after %v, effective timeout %v", tag, dt, lo)
	}
	ts := o.lastAt
	if ts < o.t0 {
		ts = o.t0
	}
	if o.t1 > ts+hi+slack {
		e.Violate("c05:returned-late:"+st.name+":"+op.Name, "%s returned at %v; last byte at %v, timeout %v (+%v slack)", tag, o.t1, ts, hi, slack)
	}
	if o.recRan {
		if o.recErr != nil {
			e.Violate("c05:recovery-failed:"+op.Name, "%s next command after catch-up failed: %v", tag, o.recErr)
		} else if o.recRes != cm.OutNext {
			e.Violate("c05:recovery-wrong-output:"+op.Name, "%s next command returned %q want %q", tag, o.recRes, cm.OutNext)
		}
	}
}

func resumeScenario(op cm.OpDef, st setting, b sched.Bounds) sched.Scenario {
	name := fmt.Sprintf("resume/%s/%s/pre=%d/env=%d", op.Name, st.name, b.Pre, b.Env)
	return sched.Scenario{Name: name, Run: func(w *sched.W) {
		defer func() { resumeAt = -1 }()
		T := tConn
		if st.override > 0 {
			T = st.override
		}
		if r := w.Replaying(); r != nil {
			var stall, L, Lmin int
			var ra int64
			fmt.Sscanf(r.Case, "stall=%d L=%d Lmin=%d resume=%d", &stall, &L, &Lmin, &ra)
			curFacts = facts{L, Lmin}
			resumeAt = time.Duration(ra)
			runOne(w, op, st, 0, stall, b)
			return
		}
		resumeAt = -1
		curFacts = facts{}
		dry := runOne(w, op, st, 0, -1, sched.Bounds{})
		if dry == nil || dry.setupErr != nil || !dry.returned {
			return
		}
		L := dry.sentEnd - dry.base
		Lmin := len(strings.TrimRight(string(dry.allOut[dry.base:]), " \n\r\t"))
		curFacts = facts{L, Lmin}
		points := map[int]bool{0: true, Lmin / 2: true, Lmin - 1: true}
		for k := range points {
			if k < 0 {
				continue
			}
			for q := -4; q <= 6; q++ {
				if w.Expired() {
					return
				}
				// + u/10: never at the same virtual instant as a library timer (all of which sit on
				// the u/2 grid), so that the order of same-instant timers cannot matter
				resumeAt = T + time.Duration(q)*u/4 + u/10
				w.Extra("resume_points", 1)
				w.SetCase(fmt.Sprintf("stall=%d L=%d Lmin=%d resume=%d", k, L, Lmin, int64(resumeAt)))
				runOne(w, op, st, 0, k, b)
			}
		}
	}}
}

func scenario(op cm.OpDef, st setting, maxChunk int, b sched.Bounds, shard, shards int) sched.Scenario {
	name := fmt.Sprintf("%s/%s/chunk=%d/pre=%d/env=%d/shard=%d.%d", op.Name, st.name, maxChunk, b.Pre, b.Env, shard, shards)
	return sched.Scenario{Name: name, Run: func(w *sched.W) {
		if r := w.Replaying(); r != nil {
			// replay: the stall point is part of the case
			var stall, L, Lmin int
			fmt.Sscanf(r.Case, "stall=%d L=%d Lmin=%d", &stall, &L, &Lmin)
			curFacts = facts{L, Lmin}
			runOne(w, op, st, maxChunk, stall, b)
			return
		}
		curFacts = facts{}
		dry := runOne(w, op, st, maxChunk, -1, sched.Bounds{})
		if dry == nil || dry.setupErr != nil || !dry.returned {
			return
		}
		L := dry.sentEnd - dry.base
		tail := dry.allOut[dry.base:]
		Lmin := len(strings.TrimRight(string(tail), " \n\r\t"))
		curFacts = facts{L, Lmin}
		for k := shard; k <= L; k += shards {
			w.Extra("stall_points", 1)
			if w.Expired() {
				return
			}
			w.SetCase(fmt.Sprintf("stall=%d L=%d Lmin=%d", k, L, Lmin))
			runOne(w, op, st, maxChunk, k, b)
		}
	}}
}

// operations whose catch-up-around-the-timeout family is explored with one deviation in the quick
// tier (one per code path); thorough does all
var quickResume = map[string]bool{
	"generic.GetPrompt": true, "generic.SendCommand": true, "generic.SendInteractive": true, "generic.SendWithCallbacks-plain": true,
	"network.AcquirePriv-auth": true, "telnet.Open": true, "ssh.Open": true, "netconf.Open/1.0": true, "netconf.Open/1.1": true, "netconf.Get/1.1": true,
}

// NETCONF operations whose stall points are explored with one deviation in the quick tier
var quickDev = map[string]bool{"netconf.Get/1.0": true, "netconf.Get/1.1": true, "netconf.EditConfig/1.1": true, "netconf.EstablishPeriodicSubscription/1.1": true}

func scenarios(tier string) []sched.Scenario {
	var out []sched.Scenario
	for _, op := range cm.Ops() {
		if op.Kind == "open-plain" {
			continue // reads nothing: no stall point can delay it
		}
		for _, st := range settings {
			if st.override >= 0 && !op.Override {
				continue
			}
			for _, mc := range []int{0, 1, 3} {
				out = append(out, scenario(op, st, mc, sched.Bounds{}, 0, 1))
			}
			if st.override != 0 {
				// the device resumes around the timeout (11 phases x 3 stall points)
				out = append(out, resumeScenario(op, st, sched.Bounds{}))
				if tier == "thorough" || (st.name == "conn" && quickResume[op.Name]) {
					out = append(out, resumeScenario(op, st, sched.Bounds{Pre: 1, Env: 1, Total: 1}))
				}
			}
			// schedule/segmentation deviations around every stall point
			switch {
			case tier == "thorough":
				for sh := 0; sh < 16; sh++ {
					out = append(out, scenario(op, st, 0, sched.Bounds{Pre: 1, Env: 1, Total: 2}, sh, 16))
				}
			case op.Kind == "nc" && !quickDev[op.Name]:
				// the send path is shared by all RPC methods: the quick tier deviates around representatives only
			case op.Recovery && op.Kind == "cli" || st.name == "conn":
				for sh := 0; sh < 8; sh++ {
					out = append(out, scenario(op, st, 0, sched.Bounds{Pre: 1, Env: 1, Total: 1}, sh, 8))
				}
			}
		}
	}
	return out
}

func TestCheck(t *testing.T) {
	sched.Main(t, sched.Check{
		ID:    "C05",
		Level: "fault_enumeration",
		Rule: "operation (every blocking CLI, login and NETCONF operation, 40+) x timeout setting {connection-wide, smaller override, larger override, zero} x read preset x EVERY stall point k in 0..L of the operation's own device byte stream (L measured by a dry run); each (operation, setting, preset, k) is one execution on the real driver under the virtual clock; " +
			"oracle: error class, return time within [timeout, last byte + timeout + slack] of virtual time, no success with partial output, zero = still blocked after 3x the connection-wide timeout, recovery: next command returns its own output after the device catches up; distinct = distinct (operation, setting, preset, stall point, observation)",
		Assumptions: []string{
			"time unit 4us of virtual time: read delay 1 unit (0 for byte-wise presets), connection-wide timeout 8.5 units, overrides 3.5/20.5 units: a poll loop makes <25 iterations per timeout; Close grace 4 units",
			"slack = 5 units (two read delays + poll granularity of the scheduler tick), plus Close grace + 3 units for failing Open operations",
			"operations with internal connection-wide steps (implicit privilege change, send-configs) may time out on either timeout",
		},
		Scenarios: scenarios,
		Budget:    map[string]time.Duration{"quick": 6 * time.Minute, "thorough": 60 * time.Minute},
	})
}

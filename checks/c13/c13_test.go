// C13 — failure marking and stop-on-failed follow the configured failure strings.
package c13

import (
	"errors"
	"fmt"
	"os"
	"path/filepath"
	"strings"
	"testing"
	"time"

	"github.com/scrapli/scrapligo/driver/generic"
	"github.com/scrapli/scrapligo/driver/network"
	"github.com/scrapli/scrapligo/driver/opoptions"
	"github.com/scrapli/scrapligo/driver/options"
	"github.com/scrapli/scrapligo/response"
	"github.com/scrapli/scrapligo/util"

	"verif/checks/cm"
	"verif/dev"
	"verif/sched"
)

const (
	// failure strings are plain text: these carry regular-expression metacharacters, and the clean output below
	// would match them if they were ever read as patterns
	f1 = "% Invalid input detected at '^' marker."
	f2 = "[FAILED] (a|b)"
	f3 = "never-occurs"
	f4 = "ERR:"
	f5 = "a failure string that is longer than the shortest outputs" // never occurs
	f6 = "\n% "                                                      // line-anchored: occurs in no single output below except the two-line one, but at the seam when outputs are joined by line feeds
)

var outs = []string{"all fine, E a", "x " + f1 + " detected", "y " + f2 + " value", f2 + " and\n" + f1 + " both", "% " + f4 + " no", f1}

var drvLists = [][]string{nil, {f1}, {f1, f2, f6}, {f5, f4, f1}}
var opLists = [][]string{nil, {f2}, {f3}, {}} // the last one: a list given for the operation that holds no string (empty, not nil) leaves the driver's list in force
var apis = []string{"generic.SendCommand", "generic.SendCommands", "generic.SendCommandsFromFile", "network.SendCommands", "network.SendConfigs", "network.SendConfig", "network.SendConfigsFromFile"}

func contains(out string, l []string) bool {
	for _, f := range l {
		if strings.Contains(out, f) {
			return true
		}
	}
	return false
}

func levels() map[string]*network.PrivilegeLevel {
	return map[string]*network.PrivilegeLevel{
		"privilege-exec": {Name: "privilege-exec", Pattern: `(?im)^router#$`},
		"configuration": {Name: "configuration", Pattern: `(?im)^router\(config\)#$`, PreviousPriv: "privilege-exec",
			Deescalate: "end", Escalate: "configure terminal"},
	}
}

type sess struct {
	api  string
	asg  []int // output index per command
	dl   int
	ol   int
	stop bool
	dup  bool // commands are named after their output: equal outputs come from equal inputs
	mix  int  // 0: only the options of the property; 1: an unrelated (channel-level) option comes first; 2: it sits between them
}

func (s sess) String() string {
	return fmt.Sprintf("%s asg=%v drv=%v op=%v stop=%v dup=%v mix=%d", s.api, s.asg, drvLists[s.dl], opLists[s.ol], s.stop, s.dup, s.mix)
}

func runSession(w *sched.W, s sess, dir string) {
	n := len(s.asg)
	cmds := make([]string, n)
	for i := range cmds {
		cmds[i] = fmt.Sprintf("cmd%d", i)
		if s.dup {
			cmds[i] = fmt.Sprintf("cmdo%d", s.asg[i])
		}
	}
	cfg := cm.Cfg()
	cfg.NoPreAlt, cfg.NoIdleAlt = true, true
	cfg.Horizon = 5 * time.Second
	w.SetCase(s.String())
	w.Explore(cfg, sched.Bounds{}, func(e *sched.Env) {
		onLine := func(mode string) func(*dev.CLIDevice, string) dev.Reply {
			return func(_ *dev.CLIDevice, line string) dev.Reply {
				switch {
				case line == "":
					return dev.Reply{}
				case line == "configure terminal" && mode == "priv":
					return dev.Reply{Next: "config"}
				case line == "end" && mode == "config":
					return dev.Reply{Next: "priv"}
				}
				for i, c := range cmds {
					if line == c {
						return dev.Reply{Out: outs[s.asg[i]]}
					}
				}
				return dev.Reply{Out: "unknown", Wrong: true}
			}
		}
		d := dev.NewCLI("priv",
			&dev.Mode{Name: "priv", Prompt: "router#", OnLine: onLine("priv")},
			&dev.Mode{Name: "config", Prompt: "router(config)#", OnLine: onLine("config")})
		tr := dev.NewFake(e, d)
		opts := cm.BaseOpts(tr, cm.Ms, time.Second, 0)
		if drvLists[s.dl] != nil {
			opts = append(opts, options.WithFailedWhenContains(drvLists[s.dl]))
		}
		var opo []util.Option
		if s.mix == 1 {
			opo = append(opo, opoptions.WithTimeoutOps(time.Second))
		}
		if opLists[s.ol] != nil {
			opo = append(opo, opoptions.WithFailedWhenContains(opLists[s.ol]))
		}
		if s.mix == 2 {
			opo = append(opo, opoptions.WithTimeoutOps(time.Second))
		}
		if s.stop {
			opo = append(opo, opoptions.WithStopOnFailed())
		}
		var single *response.Response
		var multi, follow *response.MultiResponse
		var err, ferr, setupErr error
		e.Go("client", func() {
			var g *generic.Driver
			var nd *network.Driver
			if strings.HasPrefix(s.api, "network.") {
				nd, setupErr = network.NewDriver("dev", append(opts, options.WithPrivilegeLevels(levels()), options.WithDefaultDesiredPriv("privilege-exec"))...)
				if setupErr != nil {
					return
				}
				g = nd.Driver
				setupErr = nd.Open()
			} else {
				g, setupErr = generic.NewDriver("dev", opts...)
				if setupErr != nil {
					return
				}
				setupErr = g.Open()
			}
			if setupErr != nil {
				return
			}
			file := filepath.Join(dir, fmt.Sprintf("cmds-%d", n))
			if s.dup {
				file = filepath.Join(dir, "cmds-dup")
				if werr := os.WriteFile(file, []byte(strings.Join(cmds, "\n")+"\n"), 0o644); werr != nil {
					setupErr = werr
					return
				}
			}
			switch s.api {
			case "generic.SendCommand":
				single, err = g.SendCommand(cmds[0], opo...)
			case "generic.SendCommands":
				multi, err = g.SendCommands(cmds, opo...)
			case "generic.SendCommandsFromFile":
				multi, err = g.SendCommandsFromFile(file, opo...)
			case "network.SendCommands":
				multi, err = nd.SendCommands(cmds, opo...)
			case "network.SendConfigs":
				multi, err = nd.SendConfigs(cmds, opo...)
			case "network.SendConfigsFromFile":
				multi, err = nd.SendConfigsFromFile(file, opo...)
			case "network.SendConfig":
				single, err = nd.SendConfig(strings.Join(cmds, "\n"), opo...)
			}
			if err == nil && opLists[s.ol] != nil {
				// the operation-level list is for that operation only: the same commands sent again without it are
				// judged by the driver's list
				follow, ferr = g.SendCommands(cmds)
			}
		})
		e.OnFinish(func() {
			tag := "[" + s.String() + "] "
			if setupErr != nil || e.Verdict != "" || err != nil {
				e.Violate("c13:session-failed", "%ssetup=%v err=%v verdict=%s %s", tag, setupErr, err, e.Verdict, e.HangInfo)
				return
			}
			inForce := opLists[s.ol]
			if len(inForce) == 0 {
				inForce = drvLists[s.dl]
			}
			failed := make([]bool, n)
			firstFail := -1
			for i := range cmds {
				failed[i] = contains(outs[s.asg[i]], inForce)
				if failed[i] && firstFail < 0 {
					firstFail = i
				}
			}
			sent := n
			if s.stop && firstFail >= 0 && s.api != "generic.SendCommand" {
				sent = firstFail + 1
			}
			var got []string
			for _, l := range d.NonEmptyLines() {
				if strings.HasPrefix(l, "cmd") {
					got = append(got, l)
				}
			}
			if opLists[s.ol] != nil {
				if ferr != nil || follow == nil || len(follow.Responses) != n {
					e.Violate("c13:follow-up-failed", "%sfollow-up SendCommands without options: %v", tag, ferr)
				} else {
					for i, r := range follow.Responses {
						if want := contains(outs[s.asg[i]], drvLists[s.dl]); (r.Failed != nil) != want {
							e.Violate("c13:operation-list-sticks", "%safter the operation with its own list, response %d (%q) of an option-less send: Failed=%v want failed=%v (driver list %v)", tag, i, outs[s.asg[i]], r.Failed, want, drvLists[s.dl])
						}
					}
				}
				if len(got) >= n {
					got = got[:len(got)-n] // the follow-up's commands
				}
			}
			if strings.Join(got, ",") != strings.Join(cmds[:sent], ",") {
				sig := "c13:commands-sent"
				if len(got) > sent {
					sig = "c13:command-sent-after-failure"
				}
				e.Violate(sig, "%sdevice received %v want %v", tag, got, cmds[:sent])
			}
			anyFailed := false
			var wantOps []string
			for i := 0; i < sent; i++ {
				if failed[i] {
					anyFailed = true
					wantOps = append(wantOps, cmds[i])
				}
			}
			e.Observe("%s sent=%d anyFailed=%v", s.api, sent, anyFailed)
			if multi != nil {
				if len(multi.Responses) != sent {
					e.Violate("c13:response-count", "%s%d responses want %d", tag, len(multi.Responses), sent)
					return
				}
				for i, r := range multi.Responses {
					if r.Input != cmds[i] {
						e.Violate("c13:response-order", "%sresponse %d is for %q", tag, i, r.Input)
					}
					if (r.Failed != nil) != failed[i] {
						e.Violate("c13:member-failed-flag", "%sresponse %d (%q): Failed=%v want failed=%v (in force %v)", tag, i, outs[s.asg[i]], r.Failed, failed[i], inForce)
					}
				}
				if (multi.Failed != nil) != anyFailed {
					e.Violate("c13:multi-failed-flag", "%sMultiResponse.Failed=%v want failed=%v", tag, multi.Failed, anyFailed)
				}
				if multi.Failed != nil {
					var me *response.MultiOperationError
					if !errors.As(multi.Failed, &me) {
						e.Violate("c13:multi-failed-type", "%sMultiResponse.Failed is %T", tag, multi.Failed)
					} else {
						var gotOps []string
						for _, o := range me.Operations {
							gotOps = append(gotOps, o.Input)
						}
						if strings.Join(gotOps, ",") != strings.Join(wantOps, ",") {
							e.Violate("c13:multi-failed-members", "%sfailed members %v want %v", tag, gotOps, wantOps)
						}
					}
				}
			}
			if single != nil {
				want := anyFailed
				if (single.Failed != nil) != want {
					e.Violate("c13:single-failed-flag:"+s.api, "%sResponse.Failed=%v want failed=%v", tag, single.Failed, want)
				}
				if s.api == "network.SendConfig" {
					var wantRes []string
					for i := 0; i < sent; i++ {
						wantRes = append(wantRes, cm.NormOutput(outs[s.asg[i]], ""))
					}
					if single.Result != strings.Join(wantRes, "\n") {
						e.Violate("c13:collapsed-result", "%sResult %q want %q", tag, single.Result, strings.Join(wantRes, "\n"))
					}
				}
			}
		})
	})
}

func scenario(api string, n int) sched.Scenario {
	return sched.Scenario{Name: fmt.Sprintf("%s/n=%d", api, n), Run: func(w *sched.W) {
		dir, _ := os.MkdirTemp("", "c13")
		defer os.RemoveAll(dir)
		var lines []string
		for i := 0; i < n; i++ {
			lines = append(lines, fmt.Sprintf("cmd%d", i))
		}
		_ = os.WriteFile(filepath.Join(dir, fmt.Sprintf("cmds-%d", n)), []byte(strings.Join(lines, "\n")+"\n"), 0o644)
		asg := make([]int, n)
		var rec func(i int)
		rec = func(i int) {
			if i == n {
				for dl := range drvLists {
					for ol := range opLists {
						for _, stop := range []bool{false, true} {
							for _, dup := range []bool{false, true} {
								if dup && (n < 2 || n > 3) {
									continue
								}
								for mix := 0; mix < 3; mix++ {
									if mix > 0 && (n > 2 || dup || (ol == 0 && !stop)) {
										continue
									}
									if r := w.Replaying(); r != nil && r.Case != (sess{api, asg, dl, ol, stop, dup, mix}).String() {
										continue
									}
									runSession(w, sess{api, append([]int{}, asg...), dl, ol, stop, dup, mix}, dir)
								}
							}
						}
					}
				}
				return
			}
			for o := range outs {
				asg[i] = o
				rec(i + 1)
			}
		}
		rec(0)
	}}
}

func scenarios(tier string) []sched.Scenario {
	var out []sched.Scenario
	maxN := 4
	if tier == "thorough" {
		maxN = 5
	}
	for _, api := range apis {
		for n := 1; n <= maxN; n++ {
			if api == "generic.SendCommand" && n > 1 {
				continue
			}
			out = append(out, scenario(api, n))
		}
	}
	return out
}

func TestCheck(t *testing.T) {
	sched.Main(t, sched.Check{
		ID:          "C13",
		Level:       "exploration",
		Rule:        "exhaustive product: API (generic SendCommand/SendCommands/SendCommandsFromFile, network SendCommands/SendConfigs/SendConfig/SendConfigsFromFile) x command lists of length 1..4 (5 thorough) x per-command output in {clean, contains F1, contains F2, contains both, short with F4, exactly F1} x {the operation's options alone, an unrelated channel-level option before them / between them (n<=2)} x {distinct commands, equal commands for equal outputs (n=2,3)} x driver-level list {none,[F1],[F1,F2,a line-anchored string that only matches where two outputs are joined],[long never-occurring, F4, F1]} x operation-level list {none,[F2],[F3 never occurring]} x stop-on-failed (an operation with its own list is followed by the same commands without options); each cell is a real session over the CLI device model (which logs what it receives), 0 schedule deviations; oracle = reference rule of the property; distinct = distinct cells",
		Assumptions: []string{"no schedule dimension in the property: whole-buffer reads, default schedule"},
		Scenarios:   scenarios,
		Budget:      map[string]time.Duration{"quick": 4 * time.Minute, "thorough": 30 * time.Minute},
	})
}

// C18 — callback sends fire the right callback on the right trigger.
package c18

import (
	"bytes"
	"fmt"
	"github.com/scrapli/scrapligo/driver/options"
	"regexp"
	"strings"
	"testing"
	"time"

	"github.com/scrapli/scrapligo/driver/generic"
	"github.com/scrapli/scrapligo/driver/opoptions"
	"github.com/scrapli/scrapligo/util"

	"verif/checks/cm"
	"verif/dev"
	"verif/sched"
)

// ---- trigger predicate (reference) -----------------------------------------------------------

type trig struct {
	contains    string
	notContains string
	re          *regexp.Regexp
	insensitive bool
}

func (t trig) holds(b string) bool {
	c, nc := t.contains, t.notContains
	if t.insensitive {
		b, c, nc = strings.ToLower(b), strings.ToLower(c), strings.ToLower(nc)
	}
	pos := (c != "" && strings.Contains(b, c)) || (t.re != nil && t.re.MatchString(b))
	neg := nc != "" && strings.Contains(b, nc)
	return pos && !neg
}

func (t trig) String() string {
	re := "nil"
	if t.re != nil {
		re = t.re.String()
	}
	return fmt.Sprintf("contains=%q notContains=%q re=%s insensitive=%v", t.contains, t.notContains, re, t.insensitive)
}

func (t trig) opts() []util.Option {
	var o []util.Option
	if t.contains != "" {
		o = append(o, opoptions.WithCallbackContains(t.contains))
	}
	if t.notContains != "" {
		o = append(o, opoptions.WithCallbackNotContains(t.notContains))
	}
	if t.re != nil {
		o = append(o, opoptions.WithCallbackContainsRe(t.re))
	}
	o = append(o, opoptions.WithCallbackInsensitive(t.insensitive))
	return o
}

var predSigma = []byte{'a', 'b', 'A', 'B', 'x', 'X', '.'}

func predScenario(t trig, maxLen int) sched.Scenario {
	return sched.Scenario{Name: "pred/" + t.String(), Run: func(w *sched.W) {
		buf := make([]byte, maxLen)
		var rec func(i int)
		rec = func(i int) {
			if i > 0 {
				predCase(w, t, string(buf[:i]))
			}
			if i == maxLen {
				return
			}
			for _, c := range predSigma {
				buf[i] = c
				rec(i + 1)
			}
		}
		rec(0)
	}}
}

func predCase(w *sched.W, t trig, buffer string) {
	if r := w.Replaying(); r != nil && r.Case != buffer {
		return
	}
	cfg := cm.Cfg()
	cfg.NoPreAlt, cfg.NoIdleAlt = true, true
	cfg.Horizon = time.Second
	w.SetCase(buffer)
	w.Explore(cfg, sched.Bounds{}, func(e *sched.Env) {
		d := dev.NewCLI("m", &dev.Mode{Name: "m", Prompt: ""})
		d.Banner = buffer
		d.NoFirst = true
		tr := dev.NewFake(e, d)
		fired := 0
		arg := ""
		var res string
		var err, setupErr error
		e.Go("client", func() {
			g, nerr := generic.NewDriver("dev", cm.BaseOpts(tr, cm.Ms, time.Second, 0)...)
			if nerr != nil {
				setupErr = nerr
				return
			}
			if setupErr = g.Open(); setupErr != nil {
				return
			}
			cb, cerr := generic.NewCallback(func(_ *generic.Driver, s string) error { fired++; arg = s; return nil },
				append(t.opts(), opoptions.WithCallbackComplete())...)
			if cerr != nil {
				setupErr = cerr
				return
			}
			r, rerr := g.SendWithCallbacks("", []*generic.Callback{cb}, 5*cm.Ms)
			err = rerr
			if r != nil {
				res = r.Result
			}
		})
		e.OnFinish(func() {
			tag := fmt.Sprintf("[%s buffer=%q] ", t, buffer)
			if setupErr != nil || e.Verdict != "" {
				e.Violate("c18:pred-session-failed", "%s%v %s %s", tag, setupErr, e.Verdict, e.HangInfo)
				return
			}
			want := t.holds(buffer)
			e.Observe("fired=%d", fired)
			switch {
			case want && fired == 0:
				sig := "c18:trigger-holds-but-no-callback"
				if t.notContains != "" {
					sig += ":with-not-contains"
				}
				e.Violate(sig, "%strigger holds, callback did not run (err=%v)", tag, err)
			case !want && fired > 0:
				sig := "c18:callback-without-trigger"
				if t.notContains != "" {
					sig += ":with-not-contains"
				}
				e.Violate(sig, "%strigger does not hold, callback ran with %q", tag, arg)
			case want:
				if arg != buffer || res != buffer || err != nil {
					e.Violate("c18:pred-argument-or-result", "%sarg %q result %q err %v", tag, arg, res, err)
				}
			default:
				if cm.ErrClass(err) != "timeout" {
					e.Violate("c18:no-trigger-no-timeout", "%swant timeout error, got %v", tag, err)
				}
			}
		})
	})
}

// ---- dialogue semantics ----------------------------------------------------------------------

type kindT struct {
	name     string
	t        trig
	write    string
	once     bool
	complete bool
	noReset  bool
	next     time.Duration
}

var kinds = []kindT{
	{name: "alpha", t: trig{contains: "alpha?", insensitive: true}, write: "1"},
	{name: "beta", t: trig{contains: "beta?", insensitive: true}, write: "2"},
	{name: "doneRe", t: trig{re: regexp.MustCompile(`d[o0]ne#`), insensitive: true}, complete: true},
	{name: "betaNotAlpha", t: trig{contains: "beta?", notContains: "alpha?", insensitive: true}, write: "3"},
	{name: "ALPHAcs", t: trig{contains: "ALPHA?", insensitive: false}, write: "4"},
	{name: "alphaOnce", t: trig{contains: "alpha?", insensitive: true}, write: "1", once: true},
	{name: "alphaNoResetOnce", t: trig{contains: "alpha?", insensitive: true}, write: "1", once: true, noReset: true},
	{name: "alphaNext", t: trig{contains: "alpha?", insensitive: true}, write: "9", next: 4*cm.Ms + cm.Ms/2}, // room for the answer to arrive two deviations (extra cuts / held deliveries) late and off the tick grid
	// kinds 8 and 9 (non-ASCII trigger text, case-insensitive) are only combined with scripts 10 and 11: with one
	// deviation the device's chunk is cut at every byte, also inside the two-byte characters
	{name: "senal", t: trig{contains: "señal?", insensitive: true}, write: "1"},
	{name: "betaNotSenal", t: trig{contains: "beta?", notContains: "SEÑAL?", insensitive: true}, write: "3"},
}

// device scripts: the k-th time a line is received the k-th response is emitted (nothing afterwards)
var scripts = []map[string][]string{
	{"go": {"alpha? "}, "1": {"beta? "}, "2": {"done#"}, "3": {"done#"}, "4": {"done#"}},
	{"go": {"alpha? beta? "}, "1": {"done#"}, "2": {"done#"}, "3": {"done#"}},
	{"go": {"alpha? "}, "1": {"alpha? ", "beta? "}, "2": {"done#"}, "3": {"done#"}},
	{"go": {"ALPHA? "}, "1": {"beta? "}, "4": {"beta? "}, "2": {"done#"}, "3": {"done#"}},
	{"go": {"nothing relevant "}},
	{"go": {"beta? "}, "2": {"alpha? "}, "3": {"alpha? "}, "1": {"done#"}},
	// long output (scripts 6 and 7 run with a prompt search depth of 48 bytes): a trigger followed by more than
	// that in the same chunk, and a not-contains text that far back
	{"go": {"alpha? " + filler + " "}, "1": {"beta? "}, "4": {"beta? "}, "2": {"done#"}, "3": {"done#"}},
	{"go": {"alpha? " + filler + " beta? "}, "1": {"done#"}, "2": {"done#"}, "3": {"done#"}},
	{"go": {"alpha? "}, "1": {"some banner text, then beta? "}, "4": {"some banner text, then beta? "}, "2": {"a longer closing line and then done#"}, "3": {"a longer closing line and then done#"}},
	{"go": {"alpha? "}, "1": {"beta? followed by a long tail of text"}, "2": {"done# and more text after it, longer than before"}, "3": {"done# and more text after it, longer than before"}},
	// scripts 10 and 11: trigger text with two-byte characters, in the other case than the callback's text
	{"go": {"SEÑAL? "}, "1": {"beta? "}, "2": {"done#"}, "3": {"done#"}},
	{"go": {"señal? beta? "}, "1": {"done#"}, "2": {"done#"}, "3": {"done#"}},
}

// (scripts 8 and 9: after a reset the next chunk is longer than everything accumulated before it, with the next
// trigger at its end or at its very start -- whatever a callback remembered about the old output must be gone)

const filler = "0123456789 0123456789 0123456789 0123456789 0123456789 0123456789 0123456789"

type fire struct {
	idx int
	arg string
	at  time.Duration
}

const dlgTimeout = 6*cm.Ms + cm.Ms/2

// reference: the semantics of the property over the chunk sequence the driver consumed
func refDialogue(list []int, chunks []string) (fires []fire, result string, errClass string, teff time.Duration) {
	var b, fb string
	triggered := map[int]bool{}
	teff = dlgTimeout
	scan := func() (done bool) {
		for guard := 0; guard < 50; guard++ {
			hit := -1
			for li, k := range list {
				if kinds[k].t.holds(b) {
					hit = li
					break
				}
			}
			if hit < 0 {
				return false
			}
			k := kinds[list[hit]]
			if k.once {
				if triggered[hit] {
					errClass = "operation"
					return true
				}
				triggered[hit] = true
			}
			fires = append(fires, fire{idx: hit, arg: b})
			if k.complete {
				result = fb
				errClass = "nil"
				return true
			}
			if !k.noReset {
				b = ""
			}
			if k.next != 0 {
				teff = k.next
			}
		}
		errClass = "refire-loop"
		return true
	}
	for _, c := range chunks {
		b += c
		fb += c
		if scan() {
			return
		}
	}
	errClass = "timeout"
	return
}

func dlgScenario(list []int, si int, b sched.Bounds) sched.Scenario {
	names := make([]string, len(list))
	for i, k := range list {
		names[i] = kinds[k].name
	}
	name := fmt.Sprintf("dlg/script=%d/list=%s/pre=%d/env=%d", si, strings.Join(names, ","), b.Pre, b.Env)
	return sched.Scenario{Name: name, Run: func(w *sched.W) {
		classes := []string{}
		if b.Pre > 0 {
			classes = []string{"cb.", "chan.read", "chan.Read"}
		}
		cfg := cm.Cfg(classes...)
		cfg.NoPreAlt = b.Pre == 0
		cfg.NoIdleAlt = b.Env == 0
		cfg.Horizon = 200 * cm.Ms
		w.Explore(cfg, b, func(e *sched.Env) {
			script := scripts[si]
			seen := map[string]int{}
			d := dev.NewCLI("m", &dev.Mode{Name: "m", Prompt: "", OnLine: func(_ *dev.CLIDevice, line string) dev.Reply {
				out := ""
				if k := seen[line]; k < len(script[line]) {
					out = script[line][k]
				}
				seen[line]++
				return dev.Reply{Raw: &out}
			}})
			d.NoFirst = true
			tr := dev.NewFake(e, d)
			tr.Cuts = b.Env > 0
			var fires []fire
			var res string
			var err, setupErr error
			var t0, t1 time.Duration
			e.Go("client", func() {
				gopts := cm.BaseOpts(tr, cm.Ms, time.Second, 0)
				if si == 8 || si == 9 {
					// no read delay: the read loop is already waiting in the transport when the callback writes, so
					// the answer can be queued before the callback loop polls again
					gopts = cm.BaseOpts(tr, 0, time.Second, 0)
				}
				if si >= 6 && si < 10 {
					gopts = append(gopts, options.WithPromptSearchDepth(48))
				}
				g, nerr := generic.NewDriver("dev", gopts...)
				if nerr != nil {
					setupErr = nerr
					return
				}
				if setupErr = g.Open(); setupErr != nil {
					return
				}
				var cbs []*generic.Callback
				for li, k := range list {
					li, kd := li, kinds[k]
					o := kd.t.opts()
					if kd.once {
						o = append(o, opoptions.WithCallbackOnce())
					}
					if kd.complete {
						o = append(o, opoptions.WithCallbackComplete())
					}
					if kd.next != 0 {
						o = append(o, opoptions.WithCallbackNextTimeout(kd.next))
					}
					cb, cerr := generic.NewCallback(func(drv *generic.Driver, s string) error {
						fires = append(fires, fire{idx: li, arg: s, at: e.Now()})
						if kd.write != "" {
							return drv.Channel.WriteAndReturn([]byte(kd.write), false)
						}
						return nil
					}, o...)
					if cerr != nil {
						setupErr = cerr
						return
					}
					if kd.noReset {
						cb.ResetOutput = false
					}
					cbs = append(cbs, cb)
				}
				e.OpenWindow()
				t0 = e.Now()
				r, rerr := g.SendWithCallbacks("go", cbs, dlgTimeout)
				t1 = e.Now()
				err = rerr
				if r != nil {
					res = r.Result
				}
			})
			e.OnFinish(func() {
				if setupErr != nil || e.Verdict != "" {
					e.Violate("c18:dlg-session-failed", "%v %s %s", setupErr, e.Verdict, e.HangInfo)
					return
				}
				// the chunk sequence the driver consumed = the transport deliveries (CR removed)
				var chunks []string
				off := 0
				for _, dl := range tr.Deliveries {
					chunks = append(chunks, string(bytes.ReplaceAll(tr.Stream[off:off+dl.N], []byte("\r"), nil)))
					off += dl.N
				}
				wantF, wantRes, wantErr, teff := refDialogue(list, chunks)
				var gs, ws []string
				for _, f := range fires {
					gs = append(gs, fmt.Sprintf("%d:%q", f.idx, f.arg))
				}
				for _, f := range wantF {
					ws = append(ws, fmt.Sprintf("%d:%q", f.idx, f.arg))
				}
				e.Observe("fires=%v err=%s", gs, cm.ErrClass(err))
				if wantErr == "refire-loop" {
					return // callback list that re-fires for ever without once: outside the scenario family
				}
				tag := fmt.Sprintf("chunks=%q ", chunks)
				// a chunk may be consumed by the reader after the decisive one: compare on the prefix semantics
				if strings.Join(gs, " ") != strings.Join(ws, " ") {
					sig := "c18:callbacks-fired-differ"
					for _, k := range list {
						if kinds[k].t.notContains != "" {
							sig = "c18:callbacks-fired-differ:with-not-contains"
						}
					}
					e.Violate(sig, "%sfired %v want %v", tag, gs, ws)
					return
				}
				if cm.ErrClass(err) != wantErr {
					e.Violate("c18:error-class", "%serror %v (class %s) want %s", tag, err, cm.ErrClass(err), wantErr)
					return
				}
				if wantErr == "nil" && res != wantRes {
					e.Violate("c18:result-differs", "%sresult %q want %q", tag, res, wantRes)
				}
				if wantErr == "timeout" {
					last := t0
					if len(fires) > 0 {
						last = fires[len(fires)-1].at
					}
					if t1 < last+teff-time.Microsecond || t1 > last+teff+4*cm.Ms {
						e.Violate("c18:timeout-instant", "%sreturned at %v; last callback at %v, effective timeout %v", tag, t1, last, teff)
					}
				}
			})
		})
	}}
}

func scenarios(tier string) []sched.Scenario {
	var out []sched.Scenario
	maxLen := 5
	if tier == "thorough" {
		maxLen = 6
	}
	res := []*regexp.Regexp{nil, regexp.MustCompile(`a.b`), regexp.MustCompile(`(?i)A.B`)}
	for _, c := range []string{"", "ab", "AB"} {
		for _, nc := range []string{"", "x", "X"} {
			for _, re := range res {
				for _, ins := range []bool{true, false} {
					if c == "" && re == nil {
						continue
					}
					out = append(out, predScenario(trig{c, nc, re, ins}, maxLen))
				}
			}
		}
	}
	var lists [][]int
	var gen func(l []int)
	gen = func(l []int) {
		if len(l) > 0 {
			lists = append(lists, append([]int{}, l...))
		}
		if len(l) == 3 {
			return
		}
		for k := range kinds[:8] {
			dup := false
			for _, x := range l {
				if x == k {
					dup = true
				}
			}
			if !dup {
				gen(append(l, k))
			}
		}
	}
	gen(nil)
	for si := range scripts {
		for _, l := range lists {
			if si >= 10 {
				continue // the non-ASCII scripts run with their own lists below
			}
			if si >= 8 {
				// without read delay the next chunk may be consumed before a trigger that still holds (no reset) is
				// evaluated again; the property does not order the two, the reference does: keep to resetting kinds
				skip := false
				for _, k := range l {
					if kinds[k].noReset {
						skip = true
					}
				}
				if skip {
					continue
				}
			}
			b := sched.Bounds{Env: 1, Pre: 1, Total: 1}
			if tier == "thorough" {
				b = sched.Bounds{Env: 2, Pre: 2, Total: 2}
			} else if si >= 8 && len(l) <= 2 {
				// a delivery plus a switch to the reader: the post-reset chunk is queued before the callback loop
				// polls again (no empty read in between)
				b = sched.Bounds{Env: 1, Pre: 1, Total: 2}
			}
			out = append(out, dlgScenario(l, si, b))
		}
	}
	var ulists [][]int
	upool := []int{8, 9, 1, 2}
	var ugen func(l []int)
	ugen = func(l []int) {
		non := false
		for _, x := range l {
			non = non || x >= 8
		}
		if non {
			ulists = append(ulists, append([]int{}, l...))
		}
		if len(l) == 3 {
			return
		}
		for _, k := range upool {
			dup := false
			for _, x := range l {
				dup = dup || x == k
			}
			if !dup {
				ugen(append(l, k))
			}
		}
	}
	ugen(nil)
	for _, si := range []int{10, 11} {
		for _, l := range ulists {
			b := sched.Bounds{Env: 1, Pre: 1, Total: 1}
			if tier == "thorough" {
				b = sched.Bounds{Env: 2, Pre: 2, Total: 2}
			}
			out = append(out, dlgScenario(l, si, b))
		}
	}
	return out
}

func TestCheck(t *testing.T) {
	sched.Main(t, sched.Check{
		ID:    "C18",
		Level: "model_checking",
		Rule: "predicate leg: contains in {none,ab,AB} x not-contains in {none,x,X} x regex in {nil, a.b, (?i)A.B} x case-insensitive on/off x every buffer over {a,b,A,B,x,X,.} up to length 5 (6 thorough), each observed through a real SendWithCallbacks session over a one-chunk device; " +
			"dialogue leg: every ordered list of 1..3 distinct callbacks from 8 kinds (contains, not-contains, regex+complete, case-sensitive, once, no-reset+once, next-timeout) x 10 causal device scripts (two with output longer than the lowered prompt search depth, two whose post-reset chunks are longer than everything accumulated before) x every execution within the deviation bound (chunk cuts/holds, reader-vs-caller switches), plus every list of 1..3 from {non-ASCII contains, non-ASCII not-contains, beta, regex+complete} holding a non-ASCII kind x 2 scripts whose trigger text has two-byte characters in the other case (every cut, also inside a character); oracle: reference implementation of the property run over the chunk sequence the driver actually consumed; distinct = distinct (cell, schedule, observation)",
		Assumptions: []string{"regexes are lower-case or carry their own (?i) flag (the property's own restriction)", "callback lists that would re-fire for ever (no reset, no once) are outside the family"},
		Scenarios:   scenarios,
		Budget:      map[string]time.Duration{"quick": 5 * time.Minute, "thorough": 40 * time.Minute},
	})
}

// C15 — telnet option negotiation is answered and kept out of the data stream.
package c15

import (
	"bytes"
	"fmt"
	"net"
	"os"
	"testing"
	"testing/synctest"
	"time"

	"github.com/scrapli/scrapligo/transport"

	"verif/sched"
)

const (
	iac  = 255
	dont = 254
	do   = 253
	wont = 252
	will = 251
	sga  = 3
	nop  = 241
	ga   = 249
)

// memConn is an in-memory net.Conn fed by a script: an entry >= 0 is a byte; cut ends a TCP segment (a Read
// never returns bytes of two segments); pause is a silence longer than any read deadline (the read times
// out); gap(ms) is a silence of that many milliseconds on the clock (virtual inside a synctest bubble),
// which times the read out only if the deadline set by the code under test falls inside it. After the
// script every read times out.
type memConn struct {
	script   []int
	pos      int
	wrote    []byte
	reads    int
	deadline time.Time
}

const (
	pause = -1
	cut   = -2
)

func gap(ms int) int { return -1000 - ms }

type timeoutErr struct{}

func (timeoutErr) Error() string   { return "i/o timeout" }
func (timeoutErr) Timeout() bool   { return true }
func (timeoutErr) Temporary() bool { return true }

func (c *memConn) Read(b []byte) (int, error) {
	c.reads++
	if c.reads > 100000 {
		panic("memConn: read loop does not terminate")
	}
	tmo := &net.OpError{Op: "read", Net: "tcp", Err: os.ErrDeadlineExceeded}
	for c.pos < len(c.script) && c.script[c.pos] == cut {
		c.pos++
	}
	if c.pos < len(c.script) && c.script[c.pos] <= -1000 {
		g := time.Duration(-c.script[c.pos]-1000) * time.Millisecond
		if !c.deadline.IsZero() {
			if left := time.Until(c.deadline); left <= g {
				if left > 0 {
					time.Sleep(left)
					c.script[c.pos] = gap(int((g - left) / time.Millisecond))
				}
				return 0, tmo
			}
		}
		time.Sleep(g)
		c.pos++
	}
	if c.pos >= len(c.script) || c.script[c.pos] == pause {
		if c.pos < len(c.script) {
			c.pos++
		}
		return 0, tmo
	}
	n := 0
	for n < len(b) && c.pos < len(c.script) && c.script[c.pos] >= 0 {
		b[n] = byte(c.script[c.pos])
		n++
		c.pos++
	}
	return n, nil
}
func (c *memConn) Write(b []byte) (int, error)       { c.wrote = append(c.wrote, b...); return len(b), nil }
func (c *memConn) Close() error                      { return nil }
func (c *memConn) LocalAddr() net.Addr               { return nil }
func (c *memConn) RemoteAddr() net.Addr              { return nil }
func (c *memConn) SetDeadline(time.Time) error       { return nil }
func (c *memConn) SetReadDeadline(t time.Time) error { c.deadline = t; return nil }
func (c *memConn) SetWriteDeadline(time.Time) error  { return nil }

var items = [][]byte{
	{iac, do, sga}, {iac, do, 1}, {iac, do, 31},
	{iac, dont, sga}, {iac, dont, 1}, {iac, dont, 31},
	{iac, will, sga}, {iac, will, 1}, {iac, will, 31},
	{iac, wont, sga}, {iac, wont, 1}, {iac, wont, 31},
	{iac, nop}, {iac, ga}, {iac, iac},
	{'a'}, {'\n'},
}

var itemNames = []string{"DO-SGA", "DO-ECHO", "DO-NAWS", "DONT-SGA", "DONT-ECHO", "DONT-NAWS", "WILL-SGA", "WILL-ECHO", "WILL-NAWS",
	"WONT-SGA", "WONT-ECHO", "WONT-NAWS", "NOP", "GA", "IAC-IAC", "a", "LF"}

// reference: RFC 854 parser. ok=false when the byte string ends inside a command.
func reference(in []byte) (replies, data []byte, ok bool) {
	for i := 0; i < len(in); i++ {
		c := in[i]
		if c != iac {
			data = append(data, c)
			continue
		}
		if i+1 >= len(in) {
			return replies, data, false
		}
		v := in[i+1]
		switch v {
		case iac:
			data = append(data, iac)
			i++
		case do, dont, will, wont:
			if i+2 >= len(in) {
				return replies, data, false
			}
			o := in[i+2]
			switch {
			case v == do && o == sga:
				replies = append(replies, iac, will, o)
			case v == do || v == dont:
				replies = append(replies, iac, wont, o)
			case v == will:
				replies = append(replies, iac, do, o)
			case v == wont:
				replies = append(replies, iac, dont, o)
			}
			i += 2
		default: // two byte command (NOP, GA, ...)
			i++
		}
	}
	return replies, data, true
}

// run drives the real negotiation code over script and returns what was written back and what
// the reads after Open return.
// read sizes used for the reads after Open (the data kept during negotiation may be longer than one read)
var curReadSizes = []int{8192}

func run(script []int, readSize int) (wrote, got []byte, err error, pan string) {
	defer func() {
		if r := recover(); r != nil {
			pan = fmt.Sprint(r)
		}
	}()
	c := &memConn{script: script}
	t := transport.NewTelnetWithConn(c)
	a := &transport.Args{TimeoutSocket: 400 * time.Millisecond}
	if err = t.HandleControlChars(a); err != nil {
		return c.wrote, nil, err, ""
	}
	for k := 0; k < 256; k++ {
		b, rerr := t.Read(readSize)
		got = append(got, b...)
		if rerr != nil {
			if c.pos >= len(c.script) {
				break
			}
			continue // a pause inside the data part
		}
	}
	return c.wrote, got, nil, ""
}

// mark inserts a script entry (pause, cut, gap) before byte at.
type mark struct{ at, what int }

func check(w *sched.W, seq []int, name string, in []byte, pauseAt int) {
	var m []mark
	if pauseAt >= 0 {
		m = []mark{{pauseAt, pause}}
	}
	checkM(w, name, in, m)
}

func checkM(w *sched.W, name string, in []byte, marks []mark) {
	script := make([]int, 0, len(in)+len(marks))
	timed := false
	ms := ""
	for i, b := range in {
		for _, m := range marks {
			if m.at == i {
				script = append(script, m.what)
				switch {
				case m.what == pause:
					ms += fmt.Sprintf(" pause@%d", i)
				case m.what == cut:
					ms += fmt.Sprintf(" cut@%d", i)
				default:
					ms += fmt.Sprintf(" gap%dms@%d", -m.what-1000, i)
					timed = true
				}
			}
		}
		script = append(script, int(b))
	}
	for _, rs := range curReadSizes {
		checkRS(w, name, ms, in, script, timed, rs)
	}
}

func checkRS(w *sched.W, name, ms string, in []byte, script0 []int, timed bool, rs int) {
	script := append([]int{}, script0...) // the conn rewrites gap entries
	wantR, wantD, wellFormed := reference(in)
	var wrote, got []byte
	var err error
	var pan string
	if timed {
		// the gaps are waited out on the virtual clock of a bubble
		synctest.Test(w.T, func(*testing.T) { wrote, got, err, pan = run(script, rs) })
	} else {
		wrote, got, err, pan = run(script, rs)
	}
	cse := fmt.Sprintf("%s%s readsize=%d bytes=%v", name, ms, rs, in)
	nt := ""
	if wellFormed {
		nt = cse
	}
	w.Case(fmt.Sprintf("r%d d%d", len(wantR), len(wantD)), nt)
	if pan != "" {
		w.Violate("c15:panic", cse+": "+pan, cse)
		return
	}
	if err != nil {
		w.Violate("c15:open-error", fmt.Sprintf("%s: %v", cse, err), cse)
		return
	}
	if !wellFormed {
		return
	}
	if !bytes.Equal(wrote, wantR) {
		w.Violate("c15:replies-differ", fmt.Sprintf("%s: wrote %v want %v", cse, wrote, wantR), cse)
	}
	if !bytes.Equal(got, wantD) {
		sig := "c15:data-differs"
		if len(got) < len(wantD) && bytes.Contains(in, []byte{iac, nop}) || bytes.Contains(in, []byte{iac, ga}) || bytes.Contains(in, []byte{iac, iac}) {
			sig = "c15:data-lost-after-two-byte-command"
		}
		for _, b := range got {
			if b >= 240 && !bytes.Contains(wantD, []byte{b}) {
				sig = "c15:negotiation-byte-delivered"
			}
		}
		w.Violate(sig, fmt.Sprintf("%s: reads returned %v want %v", cse, got, wantD), cse)
	}
}

func itemScenario(first, k int) sched.Scenario {
	return sched.Scenario{Name: fmt.Sprintf("items/k=%d/first=%s", k, itemNames[first]), Run: func(w *sched.W) {
		curReadSizes = []int{8192, 1, 3}
		seq := make([]int, k)
		seq[0] = first
		var rec func(i int)
		rec = func(i int) {
			var in []byte
			name := ""
			for _, it := range seq[:i] {
				in = append(in, items[it]...)
				name += itemNames[it] + " "
			}
			check(w, seq[:i], name, in, -1)
			// a pause (read timeout) at every item boundary whose remainder is pure data
			off := len(in)
			for j := i - 1; j >= 0; j-- {
				if seq[j] < 15 {
					break
				}
				off -= len(items[seq[j]])
				check(w, seq[:i], name, in, off)
			}
			if i == k {
				return
			}
			for it := range items {
				seq[i] = it
				rec(i + 1)
			}
		}
		rec(1)
	}}
}

// segScenario: every opening of up to k items x every way of ending a TCP segment at one or two places
// inside it (the code under test may read more than one byte at a time).
func segScenario(first, k int) sched.Scenario {
	return sched.Scenario{Name: fmt.Sprintf("segments/k=%d/first=%s", k, itemNames[first]), Run: func(w *sched.W) {
		curReadSizes = []int{8192, 2}
		seq := make([]int, k)
		seq[0] = first
		var rec func(i int)
		rec = func(i int) {
			var in []byte
			name := ""
			for _, it := range seq[:i] {
				in = append(in, items[it]...)
				name += itemNames[it] + " "
			}
			for a := 1; a < len(in); a++ {
				checkM(w, name, in, []mark{{a, cut}})
				if i <= 3 {
					for b := a + 1; b < len(in); b++ {
						checkM(w, name, in, []mark{{a, cut}, {b, cut}})
					}
				}
			}
			if i == k {
				return
			}
			for it := range items {
				seq[i] = it
				rec(i + 1)
			}
		}
		rec(1)
	}}
}

// timedScenario: openings of up to 3 items that trickle in: up to three silences of 0.4 x the socket timeout
// (each shorter than the per-read wait of half the socket timeout, together longer than it) at every
// combination of byte boundaries. The negotiation phase must not end while the server keeps talking.
func timedScenario(first int) sched.Scenario {
	return sched.Scenario{Name: "timed/first=" + itemNames[first], Run: func(w *sched.W) {
		curReadSizes = []int{8192}
		const k = 3
		seq := make([]int, k)
		seq[0] = first
		var rec func(i int)
		rec = func(i int) {
			var in []byte
			name := ""
			for _, it := range seq[:i] {
				in = append(in, items[it]...)
				name += itemNames[it] + " "
			}
			g := gap(160) // socket timeout 400ms: first wait 100ms, later waits 200ms
			n := len(in)
			for a := 1; a < n; a++ {
				checkM(w, name, in, []mark{{a, g}})
				for b := a + 1; b < n; b++ {
					checkM(w, name, in, []mark{{a, g}, {b, g}})
					for c := b + 1; c < n; c++ {
						checkM(w, name, in, []mark{{a, g}, {b, g}, {c, g}})
					}
				}
			}
			if i == k {
				return
			}
			for it := range items {
				seq[i] = it
				rec(i + 1)
			}
		}
		rec(1)
	}}
}

var rawSigma = []byte{iac, do, will, sga, nop, 'a'}

func rawScenario(first byte, n int) sched.Scenario {
	return sched.Scenario{Name: fmt.Sprintf("raw/n=%d/first=%d", n, first), Run: func(w *sched.W) {
		curReadSizes = []int{8192, 1}
		buf := make([]byte, n)
		buf[0] = first
		var rec func(i int)
		rec = func(i int) {
			check(w, nil, "raw", buf[:i], -1)
			if i == n {
				return
			}
			for _, c := range rawSigma {
				buf[i] = c
				rec(i + 1)
			}
		}
		rec(1)
	}}
}

func scenarios(tier string) []sched.Scenario {
	k, n := 5, 7
	if tier == "thorough" {
		k, n = 6, 9
	}
	var out []sched.Scenario
	for it := range items {
		out = append(out, itemScenario(it, k))
	}
	for _, c := range rawSigma {
		out = append(out, rawScenario(c, n))
	}
	for it := range items {
		out = append(out, segScenario(it, k-1), timedScenario(it))
	}
	out = append(out, sched.Scenario{Name: "empty", Run: func(w *sched.W) { curReadSizes = []int{8192}; check(w, nil, "empty", nil, -1) }})
	return out
}

func TestCheck(t *testing.T) {
	sched.Main(t, sched.Check{
		ID:          "C15",
		Level:       "exploration",
		Rule:        "every sequence of up to k items over {IAC verb opt for 4 verbs x 3 options, IAC NOP, IAC GA, IAC IAC, data 'a', LF} (k=5 quick, 6 thorough) and every byte string over {IAC, DO, WILL, SGA, NOP, 'a'} up to length 7 (9), fed through the real negotiation code (transport.Telnet over an in-memory net.Conn), plus a read timeout at every boundary whose remainder is pure data; every opening of up to k-1 items x every single (and, up to 3 items, double) TCP segment boundary; every opening of up to 3 items x every placement of up to three silences of 0.4 x the socket timeout on a virtual clock (testing/synctest); the reads after open use read sizes {8192, 1, 2 or 3}; compared with an RFC 854 reference parser (replies written, bytes returned by the reads after open); distinct_nontrivial = distinct well-formed openings",
		Assumptions: []string{"the negotiation phase lasts while the gaps between bytes stay below half the socket timeout (a quarter before the first byte); timeouts are injected only where the remainder is pure data", "sub-negotiation (IAC SB) is outside the alphabet"},
		Scenarios:   scenarios,
		Budget:      map[string]time.Duration{"quick": 4 * time.Minute, "thorough": 30 * time.Minute},
		NoIsolation: false,
	})
}

// C14 — SSH connections honour strict host-key checking and the configured identity.
package c14

import (
	"fmt"
	"io"
	"os"
	"path/filepath"
	"strings"
	"sync"
	"testing"
	"time"

	"golang.org/x/crypto/ssh"

	"github.com/scrapli/scrapligo/driver/generic"
	"github.com/scrapli/scrapligo/driver/options"
	"github.com/scrapli/scrapligo/logging"
	"github.com/scrapli/scrapligo/util"

	"verif/checks/cm"
	"verif/loop"
	"verif/sched"
)

const password = "l00pb4ck-PW"

// a protocol-1 style entry (host bits exponent modulus): OpenSSH skips it, x/crypto's parser rejects it
const junkLine = "legacy.example.com 1024 35 1380980930892389080980980980912038"

type cell struct {
	tr     string // standard | system-real | system-standin
	strict bool
	kh     string // has | other | empty | none
	auth   string // password | key | both
	user   string
	cfg    bool
	port   string // ephemeral | default (stand-in only)
}

func (c cell) String() string {
	return fmt.Sprintf("tr=%s strict=%v kh=%s auth=%s user=%q cfg=%v port=%s", c.tr, c.strict, c.kh, c.auth, c.user, c.cfg, c.port)
}

func fakeBin() string { return filepath.Join(os.Getenv("VERIF_DIR"), "bin", "fakessh") }

type logCap struct {
	mu sync.Mutex
	m  []string
}

func (l *logCap) log(a ...interface{}) {
	l.mu.Lock()
	defer l.mu.Unlock()
	l.m = append(l.m, fmt.Sprint(a...))
}

func runCell(w *sched.W, c cell) {
	w.Case(fmt.Sprint(c.tr, c.strict, c.kh), c.String())
	dir, err := os.MkdirTemp("", "c14")
	if err != nil {
		w.Violate("c14:harness", err.Error(), c.String())
		return
	}
	defer os.RemoveAll(dir)
	keyPath, pub, err := loop.NewKeyPair(dir, "id_ed25519")
	if err != nil {
		w.Violate("c14:harness", err.Error(), c.String())
		return
	}
	_, otherPub, _ := loop.NewKeyPair(dir, "other")
	var srvPass string
	var srvKey ssh.PublicKey
	switch c.auth {
	case "password":
		srvPass = password
	case "key":
		srvKey = pub
	default:
		srvPass, srvKey = password, pub
	}
	sd := &loop.ServeDevice{}
	srv, err := loop.NewSSHServer(srvPass, srvKey, func(kind string, ch io.ReadWriteCloser) {
		d := cm.StdCLI("privilege-exec", false)
		sd.Run(d, ch)
	})
	if err != nil {
		w.Violate("c14:harness", err.Error(), c.String())
		return
	}
	defer srv.Close()
	port := srv.Port
	if c.port == "default" {
		port = 22
	}
	lc := &logCap{}
	li, _ := logging.NewInstance(logging.WithLevel("debug"), logging.WithLogger(lc.log))
	opts := []util.Option{options.WithLogger(li), options.WithTimeoutOps(20 * time.Second), options.WithTimeoutSocket(10 * time.Second)}
	if c.port != "default" {
		opts = append(opts, options.WithPort(port))
	}
	switch c.tr {
	case "standard":
		opts = append(opts, options.WithTransportType("standard"))
	case "system-real":
		opts = append(opts, options.WithTransportType("system"))
	case "system-standin":
		logf := filepath.Join(dir, "argv")
		os.Setenv("FAKESSH_LOG", logf)
		os.Setenv("FAKESSH_MODE", "cli")
		opts = append(opts, options.WithTransportType("system"), options.WithSystemTransportOpenBin(fakeBin()))
	}
	if c.user != "" {
		opts = append(opts, options.WithAuthUsername(c.user))
	}
	if c.auth != "key" {
		opts = append(opts, options.WithAuthPassword(password))
	}
	if c.auth != "password" {
		opts = append(opts, options.WithAuthPrivateKey(keyPath, ""))
	}
	if !c.strict {
		opts = append(opts, options.WithAuthNoStrictKey())
	}
	khFile := filepath.Join(dir, "known_hosts")
	switch c.kh {
	case "has":
		_ = os.WriteFile(khFile, []byte(srv.KnownHostsLine(srv.HostKey.PublicKey())+"\n"), 0o600)
	case "other":
		_ = os.WriteFile(khFile, []byte(srv.KnownHostsLine(otherPub)+"\n"), 0o600)
	case "empty":
		_ = os.WriteFile(khFile, nil, 0o600)
	case "junk":
		_ = os.WriteFile(khFile, []byte(junkLine+"\n"), 0o600)
	case "othertype":
		// the host is listed, but only with a key of another algorithm than the one the server presents
		ek, eerr := loop.NewECDSAPublicKey()
		if eerr != nil {
			w.Violate("c14:harness", eerr.Error(), c.String())
			return
		}
		_ = os.WriteFile(khFile, []byte(srv.KnownHostsLine(ek)+"\n"), 0o600)
	case "other+junk":
		_ = os.WriteFile(khFile, []byte(srv.KnownHostsLine(otherPub)+"\n"+junkLine+"\n"), 0o600)
	}
	if c.kh != "none" {
		opts = append(opts, options.WithSSHKnownHostsFile(khFile))
	}
	cfgFile := filepath.Join(dir, "ssh_config")
	if c.cfg {
		_ = os.WriteFile(cfgFile, []byte("Host *\n  ServerAliveCountMax 3\n"), 0o600)
		opts = append(opts, options.WithSSHConfigFile(cfgFile))
	}
	d, err := generic.NewDriver("127.0.0.1", opts...)
	if err != nil {
		w.Violate("c14:new-driver", fmt.Sprintf("%s: %v", c, err), c.String())
		return
	}
	type res struct {
		openErr error
		out     string
		cmdErr  error
	}
	done := make(chan res, 1)
	go func() {
		var r res
		r.openErr = d.Open()
		if r.openErr == nil {
			rr, err := d.SendCommand(cm.Cmd1)
			r.cmdErr = err
			if rr != nil {
				r.out = rr.Result
			}
			_ = d.Close()
		}
		done <- r
	}()
	var r res
	select {
	case r = <-done:
	case <-time.After(60 * time.Second):
		w.Violate("c14:hang", c.String()+": open/command/close did not finish in 60s", c.String())
		return
	}
	lg := srv.Log.Snapshot()
	lc.mu.Lock()
	logs := strings.Join(lc.m, "\n")
	lc.mu.Unlock()
	if strings.Contains(logs, password) {
		w.Violate("c14:password-in-log", c.String(), c.String())
	}
	if c.tr == "system-standin" {
		checkArgv(w, c, dir, keyPath, khFile, cfgFile, port, r.openErr)
		return
	}
	want := !c.strict || c.kh == "has"
	if want {
		if r.openErr != nil {
			w.Violate("c14:should-connect:"+c.tr, fmt.Sprintf("%s: %v", c, r.openErr), c.String())
			return
		}
		if r.cmdErr != nil || r.out != cm.Out1 {
			w.Violate("c14:session-unusable:"+c.tr, fmt.Sprintf("%s: command result %q err %v", c, r.out, r.cmdErr), c.String())
		}
		if c.user != "" {
			for _, u := range lg.Users {
				if u != c.user {
					w.Violate("c14:wrong-user-offered", fmt.Sprintf("%s: server saw user %q", c, u), c.String())
				}
			}
		}
		if c.auth == "key" && len(lg.Passwords) > 0 {
			w.Violate("c14:password-offered-without-being-configured", fmt.Sprintf("%s: %d password attempts", c, len(lg.Passwords)), c.String())
		}
		if c.auth == "password" {
			ok := false
			for _, p := range lg.Passwords {
				if p == password {
					ok = true
				}
			}
			if !ok {
				w.Violate("c14:password-not-offered", fmt.Sprintf("%s: server saw passwords %q", c, lg.Passwords), c.String())
			}
		}
		if c.auth != "password" {
			fp := ""
			if k, e := os.ReadFile(keyPath + ".fp"); e == nil {
				fp = string(k)
			}
			_ = fp
			found := false
			for _, k := range lg.KeyFPs {
				if k != "" {
					found = true
				}
			}
			if !found {
				w.Violate("c14:configured-key-not-offered", fmt.Sprintf("%s: server saw no public key", c), c.String())
			}
		}
		return
	}
	if r.openErr != nil && c.tr != "system-standin" {
		// an ordinary retry on the same driver object is judged like the first attempt
		again := make(chan error, 1)
		go func() {
			err := d.Open()
			if err == nil {
				_ = d.Close()
			}
			again <- err
		}()
		select {
		case err := <-again:
			if err == nil {
				w.Violate("c14:connected-on-retry-despite-host-key:"+c.tr+":kh="+c.kh, fmt.Sprintf("%s: the first Open was refused (%v), a second Open on the same driver was established", c, r.openErr), c.String())
				return
			}
		case <-time.After(60 * time.Second):
			w.Violate("c14:hang", c.String()+": second open did not finish in 60s", c.String())
			return
		}
	}
	if r.openErr == nil {
		sig := "c14:connected-despite-host-key:" + c.tr + ":kh=" + c.kh
		w.Violate(sig, fmt.Sprintf("%s: connection established although the host key is not in the known-hosts file", c), c.String())
		return
	}
	if c.tr == "standard" && c.kh == "none" && lg.Conns != 0 {
		w.Violate("c14:server-contacted-without-known-hosts", fmt.Sprintf("%s: %d connections reached the server", c, lg.Conns), c.String())
	}
	if len(lg.Passwords) > 0 {
		w.Violate("c14:password-sent-to-unverified-host", fmt.Sprintf("%s: the server received a password although its key was rejected", c), c.String())
	}
}

func checkArgv(w *sched.W, c cell, dir, keyPath, khFile, cfgFile string, port int, openErr error) {
	b, err := os.ReadFile(filepath.Join(dir, "argv"))
	if err != nil {
		w.Violate("c14:standin-not-run", fmt.Sprintf("%s: %v (open err %v)", c, err, openErr), c.String())
		return
	}
	args := strings.Split(strings.TrimRight(string(b), "\n"), "\n")
	joined := " " + strings.Join(args, " ") + " "
	vio := func(sig, f string, a ...interface{}) {
		w.Violate(sig, fmt.Sprintf("%s: ", c)+fmt.Sprintf(f, a...)+fmt.Sprintf(" argv=%q", args), c.String())
	}
	has := func(s string) bool { return strings.Contains(joined, " "+s+" ") }
	if len(args) == 0 || args[0] != "127.0.0.1" {
		vio("c14:argv-host", "first argument is not the host")
	}
	if !has(fmt.Sprintf("-p %d", port)) {
		vio("c14:argv-port", "missing -p %d", port)
	}
	if c.user != "" && !has("-l "+c.user) {
		vio("c14:argv-user", "missing -l %s", c.user)
	}
	if c.user == "" && strings.Contains(joined, " -l ") {
		vio("c14:argv-user", "-l given without a configured user")
	}
	if c.strict {
		if !has("-o StrictHostKeyChecking=yes") || has("-o StrictHostKeyChecking=no") {
			vio("c14:argv-strict", "strict checking is on but the command line does not say StrictHostKeyChecking=yes")
		}
		if has("-o UserKnownHostsFile=/dev/null") {
			vio("c14:argv-strict", "strict checking with UserKnownHostsFile=/dev/null")
		}
		if c.kh != "none" && !has("-o UserKnownHostsFile="+khFile) {
			vio("c14:argv-known-hosts", "known hosts file not passed")
		}
	} else if !has("-o StrictHostKeyChecking=no") || has("-o StrictHostKeyChecking=yes") {
		vio("c14:argv-strict", "strict checking disabled but the command line does not say StrictHostKeyChecking=no")
	}
	if c.cfg {
		if !has("-F " + cfgFile) {
			vio("c14:argv-config", "config file not passed")
		}
	} else if !has("-F /dev/null") {
		vio("c14:argv-config", "no config file configured but -F /dev/null missing")
	}
	if c.auth != "password" {
		if !has("-i " + keyPath) {
			vio("c14:argv-key", "configured key not passed with -i")
		}
	} else if strings.Contains(joined, " -i ") {
		vio("c14:argv-key", "-i given without a configured key")
	}
	if strings.Contains(joined, password) {
		vio("c14:password-on-command-line", "the password appears on the command line")
	}
	if openErr != nil {
		vio("c14:standin-open-failed", "%v", openErr)
	}
}

func scenarios(tier string) []sched.Scenario {
	var out []sched.Scenario
	for _, tr := range []string{"standard", "system-real", "system-standin"} {
		for _, strict := range []bool{true, false} {
			for _, kh := range []string{"has", "other", "empty", "none", "junk", "other+junk", "othertype"} {
				tr, strict, kh := tr, strict, kh
				out = append(out, sched.Scenario{Name: fmt.Sprintf("%s/strict=%v/kh=%s", tr, strict, kh), Run: func(w *sched.W) {
					for _, auth := range []string{"password", "key", "both"} {
						for _, user := range []string{"admin", ""} {
							for _, cfg := range []bool{false, true} {
								ports := []string{"ephemeral"}
								if tr == "system-standin" {
									ports = append(ports, "default")
								}
								for _, p := range ports {
									c := cell{tr, strict, kh, auth, user, cfg, p}
									if r := w.Replaying(); r != nil && r.Case != c.String() {
										continue
									}
									runCell(w, c)
								}
							}
						}
					}
				}})
			}
		}
	}
	for _, tr := range []string{"standard", "system-real"} {
		tr := tr
		out = append(out, sched.Scenario{Name: "rewrite/" + tr, Run: func(w *sched.W) { runRewrite(w, tr) }})
		out = append(out, sched.Scenario{Name: "relative/" + tr, Run: func(w *sched.W) { runRelative(w, tr) }})
	}
	return out
}

// runRewrite: one known-hosts path whose content changes between connections of one process (key rotation,
// revocation): every connection is judged against the content at the time it is made.
func runRewrite(w *sched.W, tr string) {
	dir, err := os.MkdirTemp("", "c14rw")
	if err != nil {
		w.Violate("c14:harness", err.Error(), tr)
		return
	}
	defer os.RemoveAll(dir)
	_, otherPub, _ := loop.NewKeyPair(dir, "other")
	sd := &loop.ServeDevice{}
	srv, err := loop.NewSSHServer(password, nil, func(kind string, ch io.ReadWriteCloser) {
		sd.Run(cm.StdCLI("privilege-exec", false), ch)
	})
	if err != nil {
		w.Violate("c14:harness", err.Error(), tr)
		return
	}
	defer srv.Close()
	khFile := filepath.Join(dir, "known_hosts")
	good := srv.KnownHostsLine(srv.HostKey.PublicKey()) + "\n"
	other := srv.KnownHostsLine(otherPub) + "\n"
	steps := []struct {
		name, content string
		want          bool
	}{{"has", good, true}, {"other", other, false}, {"empty", "", false}, {"has-again", good, true}, {"other-again", other, false}}
	hist := ""
	for _, st := range steps {
		hist += "/" + st.name
		cse := "tr=" + tr + " history=" + hist
		w.Case(cse, cse)
		_ = os.WriteFile(khFile, []byte(st.content), 0o600)
		ttype := "standard"
		if tr == "system-real" {
			ttype = "system"
		}
		d, err := generic.NewDriver("127.0.0.1", options.WithPort(srv.Port), options.WithTransportType(ttype), options.WithAuthUsername("admin"), options.WithAuthPassword(password),
			options.WithSSHKnownHostsFile(khFile), options.WithTimeoutOps(20*time.Second), options.WithTimeoutSocket(10*time.Second))
		if err != nil {
			w.Violate("c14:new-driver", err.Error(), cse)
			return
		}
		done := make(chan error, 1)
		go func() {
			err := d.Open()
			if err == nil {
				_ = d.Close()
			}
			done <- err
		}()
		var openErr error
		select {
		case openErr = <-done:
		case <-time.After(60 * time.Second):
			w.Violate("c14:hang", cse+": open did not finish in 60s", cse)
			return
		}
		if st.want && openErr != nil {
			w.Violate("c14:rewrite-should-connect:"+tr, fmt.Sprintf("%s: the file now has the server key but: %v", cse, openErr), cse)
		}
		if !st.want && openErr == nil {
			w.Violate("c14:rewrite-connected-despite-host-key:"+tr, fmt.Sprintf("%s: connection established although the file no longer has the server key", cse), cse)
		}
	}
}

// runRelative: the known-hosts file is configured as a relative path that exists both under the working directory
// and under the home directory, with different content: the configured file is the one under the working directory.
func runRelative(w *sched.W, tr string) {
	dir, err := os.MkdirTemp("", "c14rel")
	if err != nil {
		w.Violate("c14:harness", err.Error(), tr)
		return
	}
	defer os.RemoveAll(dir)
	_, otherPub, _ := loop.NewKeyPair(dir, "other")
	sd := &loop.ServeDevice{}
	srv, err := loop.NewSSHServer(password, nil, func(kind string, ch io.ReadWriteCloser) {
		sd.Run(cm.StdCLI("privilege-exec", false), ch)
	})
	if err != nil {
		w.Violate("c14:harness", err.Error(), tr)
		return
	}
	defer srv.Close()
	good := srv.KnownHostsLine(srv.HostKey.PublicKey()) + "\n"
	other := srv.KnownHostsLine(otherPub) + "\n"
	oldWD, _ := os.Getwd()
	oldHome := os.Getenv("HOME")
	defer func() { _ = os.Chdir(oldWD); os.Setenv("HOME", oldHome) }()
	for _, cs := range []struct {
		name      string
		cwd, home string
		want      bool
	}{{"cwd-other/home-key", other, good, false}, {"cwd-key/home-other", good, other, true}} {
		cse := "tr=" + tr + " relative known-hosts path " + cs.name
		w.Case(cse, cse)
		cwd, home := filepath.Join(dir, cs.name, "cwd"), filepath.Join(dir, cs.name, "home")
		_ = os.MkdirAll(filepath.Join(cwd, "kh"), 0o700)
		_ = os.MkdirAll(filepath.Join(home, "kh"), 0o700)
		_ = os.WriteFile(filepath.Join(cwd, "kh", "known_hosts"), []byte(cs.cwd), 0o600)
		_ = os.WriteFile(filepath.Join(home, "kh", "known_hosts"), []byte(cs.home), 0o600)
		_ = os.Chdir(cwd)
		os.Setenv("HOME", home)
		ttype := "standard"
		if tr == "system-real" {
			ttype = "system"
		}
		d, err := generic.NewDriver("127.0.0.1", options.WithPort(srv.Port), options.WithTransportType(ttype), options.WithAuthUsername("admin"), options.WithAuthPassword(password),
			options.WithSSHKnownHostsFile("kh/known_hosts"), options.WithTimeoutOps(20*time.Second), options.WithTimeoutSocket(10*time.Second))
		if err != nil {
			w.Violate("c14:new-driver", err.Error(), cse)
			continue
		}
		done := make(chan error, 1)
		go func() {
			err := d.Open()
			if err == nil {
				_ = d.Close()
			}
			done <- err
		}()
		var openErr error
		select {
		case openErr = <-done:
		case <-time.After(60 * time.Second):
			w.Violate("c14:hang", cse+": open did not finish in 60s", cse)
			return
		}
		if cs.want && openErr != nil {
			w.Violate("c14:relative-should-connect:"+tr, fmt.Sprintf("%s: the configured file has the server key but: %v", cse, openErr), cse)
		}
		if !cs.want && openErr == nil {
			w.Violate("c14:relative-connected-despite-host-key:"+tr, fmt.Sprintf("%s: connection established although the configured file (under the working directory) does not have the server key", cse), cse)
		}
	}
}

func TestCheck(t *testing.T) {
	sched.Main(t, sched.Check{
		ID:    "C14",
		Level: "exploration",
		Rule:  "exhaustive configuration table: transport {standard (x/crypto/ssh), system with the real /usr/bin/ssh, system with a stand-in ssh binary that records its argv} x strict checking {default on, disabled} x known-hosts file {has the server key, has another key for the host, empty, not given, only an unparsable line, another key plus an unparsable line, a key of another algorithm} x authentication {password, key, both} x user {set, empty} x ssh config file {none, given} (x port {explicit, default} for the stand-in); every cell is one connection (Open, one command, Close; a refused Open is retried once on the same driver) to an in-process SSH server on loopback with a fresh host key whose auth callbacks record what was offered; plus, per real transport, one known-hosts path rewritten between five connections of the same process (key, other key, empty, key, other key) and a relative known-hosts path that also exists under the home directory; distinct = distinct cells",
		Assumptions: []string{
			"real sockets, crypto/ssh and OpenSSH cannot run under the controlled scheduler: configurations are enumerated, OS schedules are not",
			"for the system transport the host key decision is OpenSSH's; scrapligo is judged on the argument list it builds and on the end-to-end outcome",
			"/root has no known_hosts entry for the fresh key, so 'not given' means unknown host for the real client too",
		},
		Scenarios: scenarios,
		Budget:    map[string]time.Duration{"quick": 8 * time.Minute, "thorough": 15 * time.Minute},
		Workers:   8,
	})
}

// C06 — connection loss surfaces as an error, never as a hang or a truncated success.
package c06

import (
	"fmt"
	"strings"
	"testing"
	"time"

	"verif/checks/cm"
	"verif/dev"
	"verif/sched"
)

const (
	u     = 4 * time.Microsecond
	tConn = 100 * u // 10x larger than the promptness bound
	grace = u * (u / 1000)
)

type kind struct {
	name string
	loss dev.LossKind
	wr   bool // write error on the j-th write instead of a read-side loss
}

var kinds = []kind{{"eof", dev.LossEOF, false}, {"eio", dev.LossEIO, false}, {"eio-then-eof", dev.LossEIOThenEOF, false}, {"write-error", dev.LossNone, true}}

type later struct {
	err      error
	dt       time.Duration
	returned bool
}

type outcome struct {
	setupErr error
	began    bool
	base     int
	baseW    int
	t0, t1   time.Duration
	returned bool
	res      string
	err      error
	laters   []later
	sentEnd  int
	writes   int
	allOut   []byte
	lossTime time.Duration
	wfTime   time.Duration
	staleQ   int // chunks left in the channel queue when the operation under test returned its error
}

type facts struct{ L, Lmin, W int }

func runOne(w *sched.W, op cm.OpDef, kd kind, maxChunk, point int, b sched.Bounds, f facts) *outcome {
	var out *outcome
	rd := u
	if maxChunk > 0 {
		rd = 0
	}
	classes := []string{}
	if b.Pre > 0 {
		classes = []string{"chan.read", "chan.Read", "nc.", "spawn."}
	}
	cfg := cm.Cfg(classes...)
	cfg.Tick = u
	cfg.NoPreAlt = b.Pre == 0
	cfg.NoIdleAlt = b.Env == 0
	cfg.Horizon = 20 * tConn
	cfg.Grace = 3*u + grace
	w.Explore(cfg, b, func(e *sched.Env) {
		o := &outcome{}
		out = o
		c := &cm.OpCtx{E: e, RD: rd, TConn: tConn}
		c.Begin = func() {
			o.began = true
			o.base = c.Tr.Sent()
			o.baseW = len(c.Tr.Writes)
			o.t0 = e.Now()
			c.Tr.WriteOKAfterLoss = true
			if point >= 0 {
				if kd.wr {
					c.Tr.WriteErrAt = o.baseW + point
				} else {
					c.Tr.Loss, c.Tr.LossAt = kd.loss, o.base+point
				}
			}
			e.OpenWindow()
		}
		e.Go("client", func() {
			if o.setupErr = op.Setup(c); o.setupErr != nil {
				return
			}
			c.Tr.MaxChunk = maxChunk
			c.Tr.Cuts = b.Env > 0
			o.res, o.err = op.Call(c, -1)
			o.t1 = e.Now()
			o.returned = true
			if o.err != nil {
				switch {
				case c.D != nil:
					o.staleQ = c.D.Channel.Q.GetDepth()
				case c.G != nil && c.G.Channel != nil:
					o.staleQ = c.G.Channel.Q.GetDepth()
				}
			}
			if point < 0 {
				return
			}
			if strings.HasSuffix(strings.Split(op.Name, "/")[0], ".Open") && o.err != nil {
				return // the driver never opened: there is no session for later calls
			}
			if kd.wr && o.err == nil {
				return
			}
			if !kd.wr && (point >= f.Lmin || op.Kind == "open-plain") && o.err == nil {
				// the loss happens while idle, after the complete exchange: give the reader time to see it
				time.Sleep(4 * u)
			}
			for i := 0; i < 2; i++ {
				t := e.Now()
				var err error
				switch {
				case c.D != nil && i == 0:
					_, err = c.D.Get("")
				case c.D != nil:
					_, err = c.D.Lock("running")
				case i == 0:
					_, err = c.G.GetPrompt()
				default:
					_, err = c.G.SendCommand(cm.Cmd2)
				}
				o.laters = append(o.laters, later{err: err, dt: e.Now() - t, returned: true})
			}
		})
		e.OnFinish(func() {
			if c.Tr != nil {
				o.sentEnd, o.writes, o.allOut = c.Tr.Sent(), len(c.Tr.Writes), c.Tr.AllOut
				o.lossTime, o.wfTime = c.Tr.LossTime, c.Tr.WriteFailTime
			}
			hung := ""
			if e.Verdict != "" {
				hung = e.Verdict + ": " + e.HangInfo
			}
			e.Observe("ret=%v err=%s laters=%d", o.returned, cm.ErrClass(o.err), len(o.laters))
			judge(e, op, kd, point, o, hung, f)
		})
	})
	return out
}

func judge(e *sched.Env, op cm.OpDef, kd kind, point int, o *outcome, hung string, f facts) {
	tag := fmt.Sprintf("[%s/%s/point=%d]", op.Name, kd.name, point)
	if o.setupErr != nil || !o.began {
		e.Violate("c06:setup-failed", "%s setup: %v %s", tag, o.setupErr, hung)
		return
	}
	if point < 0 {
		if !o.returned || o.err != nil {
			e.Violate("c06:complete-op-failed", "%s without a fault: returned=%v err=%v %s", tag, o.returned, o.err, hung)
		}
		return
	}
	prompt := 3*u + 4*u // 3 read delays + scheduler poll granularity
	if strings.HasSuffix(strings.Split(op.Name, "/")[0], ".Open") {
		prompt += grace + 3*u // failing opens close the channel
	}
	if !o.returned {
		e.Violate("c06:hang:"+kd.name+":"+op.Name, "%s operation in flight never returned: %s", tag, hung)
		return
	}
	faultAt := o.lossTime
	if kd.wr {
		faultAt = o.wfTime
	}
	if o.err == nil {
		complete := point >= f.Lmin || op.Kind == "open-plain" // a plain Open reads nothing: it may succeed on a dead stream
		if kd.wr {
			complete = point >= f.W
		}
		if !complete {
			e.Violate("c06:truncated-success:"+kd.name, "%s returned success %q although the connection was lost after %d of %d bytes/writes", tag, o.res, point, f.Lmin)
		} else if op.Want != "" && o.res != op.Want {
			e.Violate("c06:result-differs", "%s result %q want %q", tag, o.res, op.Want)
		}
	} else {
		if faultAt < 0 {
			e.Violate("c06:error-without-fault", "%s failed (%v) although the fault never fired", tag, o.err)
		} else {
			ref := faultAt
			if o.t0 > ref {
				ref = o.t0
			}
			if o.t1 > ref+prompt {
				e.Violate("c06:error-not-prompt:"+kd.name+":"+op.Name, "%s fault at %v, operation returned at %v (> %v later; timeout is %v): %v", tag, faultAt, o.t1, prompt, tConn, o.err)
			}
		}
	}
	for i, l := range o.laters {
		if l.err == nil {
			sig := "c06:later-call-succeeded:" + kd.name
			if o.err != nil && !kd.wr && o.staleQ > 0 {
				// the failed operation left its own, completely delivered, reply in the queue
				sig = "c06:later-call-consumed-stale-reply:" + kd.name
			}
			e.Violate(sig, "%s later call %d succeeded after the connection was lost (operation under test: err=%v)", tag, i, o.err)
		} else if l.dt > prompt {
			e.Violate("c06:later-call-not-prompt:"+kd.name+":"+op.Kind, "%s later call %d took %v (> %v; timeout %v): %v", tag, i, l.dt, prompt, tConn, l.err)
		}
	}
}

func scenario(op cm.OpDef, kd kind, maxChunk int, b sched.Bounds, shard, shards int) sched.Scenario {
	name := fmt.Sprintf("%s/%s/chunk=%d/pre=%d/env=%d/shard=%d.%d", op.Name, kd.name, maxChunk, b.Pre, b.Env, shard, shards)
	return sched.Scenario{Name: name, Run: func(w *sched.W) {
		if r := w.Replaying(); r != nil {
			var point int
			var f facts
			fmt.Sscanf(r.Case, "point=%d L=%d Lmin=%d W=%d", &point, &f.L, &f.Lmin, &f.W)
			runOne(w, op, kd, maxChunk, point, b, f)
			return
		}
		dry := runOne(w, op, kd, maxChunk, -1, sched.Bounds{}, facts{})
		if dry == nil || dry.setupErr != nil || !dry.returned || dry.err != nil {
			return
		}
		f := facts{L: dry.sentEnd - dry.base, W: dry.writes - dry.baseW}
		f.Lmin = len(strings.TrimRight(string(dry.allOut[dry.base:]), " \n\r\t"))
		n := f.L
		if kd.wr {
			n = f.W - 1
		}
		for k := shard; k <= n; k += shards {
			if w.Expired() {
				return
			}
			w.Extra("fault_points", 1)
			w.SetCase(fmt.Sprintf("point=%d L=%d Lmin=%d W=%d", k, f.L, f.Lmin, f.W))
			runOne(w, op, kd, maxChunk, k, b, f)
		}
	}}
}

// operations whose error hand-off is explored with deviations in the quick tier (one per kind of
// code path); thorough does all of them
var quickDev = map[string]bool{
	"generic.GetPrompt": true, "generic.SendCommand": true, "generic.SendWithCallbacks": true, "network.SendCommand-implicit-priv": true,
	"generic.Open": true, "telnet.Open": true, "ssh.Open": true, "netconf.Open/1.1": true, "netconf.Get/1.1": true, "netconf.EditConfig/1.0": true,
}

func scenarios(tier string) []sched.Scenario {
	var out []sched.Scenario
	for _, op := range cm.Ops() {
		for _, kd := range kinds {
			for _, mc := range []int{0, 1} {
				if kd.wr && mc != 0 {
					continue
				}
				out = append(out, scenario(op, kd, mc, sched.Bounds{}, 0, 1))
			}
			pre := 1
			sh := 4
			if tier == "thorough" {
				pre, sh = 2, 64 // many shards: a worker keeps the goroutines of dead bubbles until its scenario ends
			} else if !quickDev[op.Name] {
				continue
			}
			bd := sched.Bounds{Pre: pre, Env: 1, Total: pre}
			if op.Kind == "open-plain" {
				// tiny operation: the read loop may see the loss and exit before Open returns (thread switch at the
				// spawn point + delivery of the loss while the opener is runnable)
				bd = sched.Bounds{Pre: 2, Env: 2, Total: 3}
			}
			for s := 0; s < sh; s++ {
				out = append(out, scenario(op, kd, 0, bd, s, sh))
			}
		}
	}
	out = append(out, sched.Scenario{Name: "telnet-negotiation-loss", Run: telnetNegotiationLoss})
	return out
}

func TestCheck(t *testing.T) {
	sched.Main(t, sched.Check{
		ID:    "C06",
		Level: "fault_enumeration",
		Rule: "the real telnet transport losing its connection (end of stream, reset) after every prefix of 5 openings, i.e. inside the option negotiation of Open; operation (every blocking CLI, login and NETCONF operation) x loss kind {end-of-stream, persistent EIO, one EIO then end-of-stream, write error} x read preset x EVERY loss point (after byte k of the operation's own device stream, k=0..L incl. idle-after-exchange; for write errors every write index) on the real drivers under the virtual clock, then two later calls; " +
			"plus every execution within 1 (2 thorough) preemption/deviation of the error hand-off around each loss point; oracle: error returned within 3 read delays (+poll granularity) of the fault although the timeout is 100 units, success only when the exchange was complete and equal to the model, later calls fail promptly, no panic (worker exit status); distinct = distinct (operation, kind, preset, point, observation)",
		Assumptions: []string{
			"writes after a read-side loss succeed silently (the harder case: the kernel buffers them), so later calls must learn of the loss from the read path",
			"a failed Open is allowed Close's grace period on top; later calls are not made on a driver that never opened",
		},
		Scenarios: scenarios,
		Budget:    map[string]time.Duration{"quick": 6 * time.Minute, "thorough": 60 * time.Minute},
	})
}

//go:build verif

package c06

import (
	"fmt"
	"io"
	"net"
	"syscall"
	"time"

	"github.com/scrapli/scrapligo/transport"

	"verif/sched"
)

// lossConn is an in-memory net.Conn for the option negotiation phase of a telnet Open: it delivers the first
// `at` bytes of `in` (one byte, or everything left, per Read) and from then on reports the loss of the
// connection on every Read. A caller that keeps reading after the loss is cut off by a panic.
type lossConn struct {
	in        []byte
	at, pos   int
	bytewise  bool
	kind      string // eof | reset
	afterLoss int
	wrote     []byte
}

func (c *lossConn) Read(b []byte) (int, error) {
	if c.pos >= c.at {
		c.afterLoss++
		if c.afterLoss > 2000 {
			panic("reads go on after the connection was lost")
		}
		if c.kind == "eof" {
			return 0, io.EOF
		}
		return 0, &net.OpError{Op: "read", Net: "tcp", Err: syscall.ECONNRESET}
	}
	n := copy(b, c.in[c.pos:c.at])
	if c.bytewise && n > 1 {
		n = 1
	}
	c.pos += n
	return n, nil
}
func (c *lossConn) Write(b []byte) (int, error)      { c.wrote = append(c.wrote, b...); return len(b), nil }
func (c *lossConn) Close() error                     { return nil }
func (c *lossConn) LocalAddr() net.Addr              { return nil }
func (c *lossConn) RemoteAddr() net.Addr             { return nil }
func (c *lossConn) SetDeadline(time.Time) error      { return nil }
func (c *lossConn) SetReadDeadline(time.Time) error  { return nil }
func (c *lossConn) SetWriteDeadline(time.Time) error { return nil }

const (
	iac  = 255
	do   = 253
	will = 251
	nop  = 241
)

var telnetOpenings = [][]byte{
	{},
	{iac, do, 1},
	{iac, do, 1, iac, will, 3, 'l', 'o', 'g', 'i', 'n', ':', ' '},
	{iac, nop, 'x', iac, do, 24},
	[]byte("Welcome\r\nlogin: "),
}

// telnetNegotiationLoss: the peer ends the stream (or resets it) after every prefix of a telnet opening, i.e.
// inside the option negotiation that is part of Open for this transport: Open returns (with an error, or with
// the bytes so far and an error from the first reads) instead of reading for ever.
func telnetNegotiationLoss(w *sched.W) {
	for oi, in := range telnetOpenings {
		for at := 0; at <= len(in); at++ {
			for _, kind := range []string{"eof", "reset"} {
				for _, bw := range []bool{false, true} {
					tag := fmt.Sprintf("telnet opening %d lost (%s) after %d of %d bytes bytewise=%v", oi, kind, at, len(in), bw)
					if r := w.Replaying(); r != nil && r.Case != tag {
						continue
					}
					w.Case("telnet-negotiation", tag)
					c := &lossConn{in: in, at: at, kind: kind, bytewise: bw}
					var err error
					pan := ""
					func() {
						defer func() {
							if r := recover(); r != nil {
								pan = fmt.Sprint(r)
							}
						}()
						t := transport.NewTelnetWithConn(c)
						err = t.HandleControlChars(&transport.Args{TimeoutSocket: 400 * time.Millisecond})
						for k := 0; err == nil && k < 300; k++ {
							_, err = t.Read(64)
						}
					}()
					switch {
					case pan != "":
						w.Violate("c06:telnet-open-reads-on-after-loss:"+kind, tag+": "+pan, tag)
					case err == nil:
						w.Violate("c06:telnet-loss-never-reported:"+kind, tag+": neither the negotiation nor 300 reads after it returned an error", tag)
					}
				}
			}
		}
	}
}

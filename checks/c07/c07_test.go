// C07 — Close always completes: no panic, deadlock, leaked goroutine (race clause: race_test.go).
package c07

import (
	"fmt"
	"strings"
	"testing"
	"time"

	"github.com/scrapli/scrapligo/driver/generic"
	"github.com/scrapli/scrapligo/driver/netconf"
	"github.com/scrapli/scrapligo/driver/network"
	"github.com/scrapli/scrapligo/driver/options"

	"verif/checks/cm"
	"verif/dev"
	"verif/sched"
)

type scn struct {
	drv   string // generic | network
	state string
	mode  dev.CloseMode
	rd    time.Duration
	b     sched.Bounds
}

func (s scn) name() string {
	return fmt.Sprintf("%s/%s/onclose=%d/rd=%v/pre=%d/env=%d", s.drv, s.state, s.mode, s.rd, s.b.Pre, s.b.Env)
}

var states = []string{
	"idle", "fresh", "data-arriving", "eof-seen", "eof-pending", "eio-consumed", "eio-unconsumed",
	"eio-pending", "after-timeout", "second-seq", "second-conc", "exit-onclose",
	// an on-close function that first fetches the prompt (as the stock platforms' acquire-priv does) and then
	// says "exit": on a dead connection it fails, and Close must still close everything
	"onclose-idle", "onclose-eof-seen", "onclose-eio-consumed", "onclose-eio-unconsumed",
}

func grace(rd time.Duration) time.Duration { return rd * (rd / 1000) }

func scenario(s scn) sched.Scenario {
	return sched.Scenario{Name: s.name(), Run: func(w *sched.W) {
		cfg := cm.Cfg("chan.", "tr.")
		cfg.Tick = s.rd
		cfg.IdleEnvOnly = true
		cfg.NoIdleAlt = s.b.Env == 0 || s.b.Pre >= 1000 // unbounded family: all orders, no holds
		cfg.WantLeaks = true
		cfg.Grace = 4*s.rd + grace(s.rd)
		cfg.Horizon = 100*s.rd + 3*grace(s.rd) + 50*s.rd
		onclose := strings.HasPrefix(s.state, "onclose-")
		state := strings.TrimPrefix(s.state, "onclose-")
		w.Explore(cfg, s.b, func(e *sched.Env) {
			hangup := false
			var tr *dev.FakeTransport
			d := dev.NewCLI("exec", &dev.Mode{Name: "exec", Prompt: "router#", OnLine: func(d *dev.CLIDevice, line string) dev.Reply {
				switch line {
				case "":
					return dev.Reply{}
				case "show x":
					return dev.Reply{Out: "x"}
				case "exit":
					hangup = true
					empty := ""
					return dev.Reply{Raw: &empty}
				}
				return dev.Reply{Out: "% bad", Wrong: true}
			}})
			tr = dev.NewFake(e, d)
			tr.OnClose = s.mode
			timeout := 6*s.rd + s.rd/2
			opts := cm.BaseOpts(tr, s.rd, timeout, 0)
			type closeRes struct {
				err      error
				t0, t1   time.Duration
				returned bool
			}
			var closes [2]closeRes
			var openErr, setupErr error
			setupDone := false
			var g *generic.Driver
			var n *network.Driver
			doClose := func(i int) {
				closes[i].t0 = e.Now()
				var err error
				if n != nil {
					err = n.Close()
				} else {
					err = g.Close()
				}
				closes[i] = closeRes{err: err, t0: closes[i].t0, t1: e.Now(), returned: true}
			}
			second := make(chan struct{})
			e.Go("client", func() {
				var err error
				if s.drv == "network" {
					o := append(opts, options.WithPrivilegeLevels(map[string]*network.PrivilegeLevel{
						"exec": {Name: "exec", Pattern: `(?im)^router#\s?$`},
					}), options.WithDefaultDesiredPriv("exec"))
					if s.state == "exit-onclose" {
						o = append(o, options.WithNetworkOnClose(func(d *network.Driver) error {
							return d.Channel.WriteAndReturn([]byte("exit"), false)
						}))
					}
					if onclose {
						o = append(o, options.WithNetworkOnClose(func(d *network.Driver) error {
							if _, err := d.GetPrompt(); err != nil {
								return err
							}
							return d.Channel.WriteAndReturn([]byte("exit"), false)
						}))
					}
					n, err = network.NewDriver("dev", o...)
					if err == nil {
						g = n.Driver
					}
				} else {
					o := opts
					if s.state == "exit-onclose" {
						o = append(o, options.WithOnClose(func(d *generic.Driver) error {
							return d.Channel.WriteAndReturn([]byte("exit"), false)
						}))
					}
					if onclose {
						o = append(o, options.WithOnClose(func(d *generic.Driver) error {
							if _, err := d.GetPrompt(); err != nil {
								return err
							}
							return d.Channel.WriteAndReturn([]byte("exit"), false)
						}))
					}
					g, err = generic.NewDriver("dev", o...)
				}
				if err != nil {
					openErr = err
					return
				}
				if n != nil {
					openErr = n.Open()
				} else {
					openErr = g.Open()
				}
				if openErr != nil {
					return
				}
				if s.state != "fresh" {
					if _, err := g.GetPrompt(); err != nil {
						setupErr = fmt.Errorf("getprompt: %w", err)
						return
					}
				}
				switch state {
				case "data-arriving":
					e.OpenWindow()
					tr.Inject([]byte("\nlog message\nrouter#"))
				case "eof-seen":
					tr.Loss, tr.LossAt = dev.LossEOF, tr.Delivered
					time.Sleep(3 * s.rd)
				case "eof-pending":
					e.OpenWindow()
					tr.Loss, tr.LossAt = dev.LossEOF, tr.Delivered
				case "eio-consumed":
					tr.Loss, tr.LossAt = dev.LossEIOThenEOF, tr.Delivered
					if _, err := g.SendCommand("show x"); err == nil {
						setupErr = fmt.Errorf("send after EIO succeeded")
						return
					}
					time.Sleep(3 * s.rd)
				case "eio-unconsumed":
					tr.Loss, tr.LossAt = dev.LossEIO, tr.Delivered
					time.Sleep(3 * s.rd)
				case "eio-pending":
					e.OpenWindow()
					tr.Loss, tr.LossAt = dev.LossEIO, tr.Delivered
				case "after-timeout":
					tr.StallAt = tr.Delivered
					if _, err := g.SendCommand("show x"); err == nil {
						setupErr = fmt.Errorf("send on stalled device succeeded")
						return
					}
				}
				setupDone = true
				if e.WindowFrom == 0 {
					e.OpenWindow()
				}
				if s.state == "second-conc" {
					close(second)
				}
				doClose(0)
				if s.state == "second-seq" {
					doClose(1)
				}
			})
			if s.state == "second-conc" {
				e.Go("client2", func() {
					<-second
					doClose(1)
				})
			}
			if s.state == "exit-onclose" || onclose {
				// the device hangs up when it gets "exit": modelled as end-of-stream at the current point
				e.AddSource(hangupSource{func() bool {
					if hangup && tr.Loss == dev.LossNone {
						tr.Loss, tr.LossAt = dev.LossEOF, tr.Delivered+tr.Pending()
					}
					return false
				}})
			}
			e.OnFinish(func() {
				if openErr != nil || setupErr != nil {
					e.Violate("c07:setup-failed", "open=%v setup=%v", openErr, setupErr)
					return
				}
				nclose := 1
				if strings.HasPrefix(s.state, "second") {
					nclose = 2
				}
				for i := 0; i < nclose; i++ {
					c := closes[i]
					e.Observe("close%d ret=%v err=%s dt=%v", i, c.returned, cm.ErrClass(c.err), c.t1-c.t0)
				}
				e.Observe("implClose=%d leaked=%v", tr.CloseCalls, e.Leaked)
				if e.Verdict != "" || !setupDone {
					e.Violate("c07:close-"+e.Verdict, "Close did not return (setupDone=%v): %s", setupDone, e.HangInfo)
					return
				}
				for i := 0; i < nclose; i++ {
					c := closes[i]
					if !c.returned {
						e.Violate("c07:close-hang", "close %d never returned: %s", i, e.HangInfo)
						return
					}
					limit := grace(s.rd) + 3*s.rd + 3*cfg.Tick
					if s.state == "exit-onclose" {
						limit += 3 * s.rd
					}
					if onclose {
						limit += 8 * s.rd // the on-close function's own prompt fetch
					}
					if c.t1-c.t0 > limit {
						e.Violate("c07:close-slow", "close %d took %v > %v", i, c.t1-c.t0, limit)
					}
				}
				if tr.CloseCalls == 0 {
					e.Violate("c07:transport-not-closed", "Implementation.Close never called")
				}
				for _, l := range e.Leaked {
					if s.mode == dev.CloseStaysBlocked && (strings.Contains(l, "Transport).read") || strings.Contains(l, "Channel).Close.func1")) {
						continue // nobody can unblock a transport read that ignores Close
					}
					e.Violate("c07:goroutine-leak:"+strings.Fields(l)[0], "library goroutine alive after Close + grace: %v (all: %v)", l, e.Leaked)
				}
			})
		})
	}}
}

var ncStates = []string{"idle", "reply-arriving", "eof-seen", "eof-pending", "eio-unconsumed", "eio-pending", "after-timeout", "second-seq", "second-conc"}

func ncScenario(s scn, version string) sched.Scenario {
	return sched.Scenario{Name: "netconf" + version + "/" + s.state + fmt.Sprintf("/onclose=%d/rd=%v/pre=%d/env=%d", s.mode, s.rd, s.b.Pre, s.b.Env), Run: func(w *sched.W) {
		cfg := cm.Cfg("chan.", "tr.", "nc.")
		cfg.Tick = s.rd
		cfg.IdleEnvOnly = true
		cfg.NoIdleAlt = s.b.Env == 0 || s.b.Pre >= 1000
		cfg.WantLeaks = true
		cfg.Grace = 4*s.rd + grace(s.rd)
		cfg.Horizon = 100*s.rd + 3*grace(s.rd) + 50*s.rd
		w.Explore(cfg, s.b, func(e *sched.Env) {
			caps := []string{dev.Cap10}
			if version == "1.1" {
				caps = append(caps, dev.Cap11)
			}
			srv := &dev.NCServer{Hello: dev.HelloDoc(caps, "4")}
			srv.Behave = func(i int, req dev.NCReq) (string, dev.NCBehavior) {
				if s.state == "after-timeout" || s.state == "reply-arriving" {
					return dev.OKReply(req.ID), dev.ReplyHeld
				}
				return dev.OKReply(req.ID), dev.ReplyNow
			}
			tr := dev.NewFake(e, srv)
			srv.Out = tr.Inject
			tr.NextEnd = srv.NextEnd
			tr.OnClose = s.mode
			timeout := 6*s.rd + s.rd/2
			type closeRes struct {
				err      error
				t0, t1   time.Duration
				returned bool
			}
			var closes [2]closeRes
			var openErr, setupErr error
			setupDone := false
			var d *netconf.Driver
			doClose := func(i int) {
				closes[i].t0 = e.Now()
				err := d.Close()
				closes[i] = closeRes{err: err, t0: closes[i].t0, t1: e.Now(), returned: true}
			}
			second := make(chan struct{})
			e.Go("client", func() {
				var err error
				d, err = netconf.NewDriver("dev", cm.BaseOpts(tr, s.rd, timeout, 0)...)
				if err != nil {
					openErr = err
					return
				}
				if openErr = d.Open(); openErr != nil {
					return
				}
				switch s.state {
				case "reply-arriving", "after-timeout":
					if _, err := d.Get(""); err == nil {
						setupErr = fmt.Errorf("get without reply succeeded")
						return
					}
					if s.state == "reply-arriving" {
						e.OpenWindow()
						srv.Release(0)
					}
				case "eof-seen":
					tr.Loss, tr.LossAt = dev.LossEOF, tr.Delivered
					time.Sleep(4 * s.rd)
				case "eof-pending":
					e.OpenWindow()
					tr.Loss, tr.LossAt = dev.LossEOF, tr.Delivered
				case "eio-unconsumed":
					tr.Loss, tr.LossAt = dev.LossEIO, tr.Delivered
					time.Sleep(4 * s.rd)
				case "eio-pending":
					e.OpenWindow()
					tr.Loss, tr.LossAt = dev.LossEIO, tr.Delivered
				}
				setupDone = true
				if e.WindowFrom == 0 {
					e.OpenWindow()
				}
				if s.state == "second-conc" {
					close(second)
				}
				doClose(0)
				if s.state == "second-seq" {
					doClose(1)
				}
			})
			if s.state == "second-conc" {
				e.Go("client2", func() {
					<-second
					doClose(1)
				})
			}
			e.OnFinish(func() {
				if openErr != nil || setupErr != nil {
					e.Violate("c07:setup-failed", "open=%v setup=%v", openErr, setupErr)
					return
				}
				nclose := 1
				if strings.HasPrefix(s.state, "second") {
					nclose = 2
				}
				for i := 0; i < nclose; i++ {
					c := closes[i]
					e.Observe("close%d ret=%v err=%s dt=%v", i, c.returned, cm.ErrClass(c.err), c.t1-c.t0)
				}
				e.Observe("implClose=%d leaked=%v", tr.CloseCalls, e.Leaked)
				if e.Verdict != "" || !setupDone {
					e.Violate("c07:nc-close-"+e.Verdict+":"+s.state, "netconf Close did not return (setupDone=%v): %s", setupDone, e.HangInfo)
					return
				}
				for i := 0; i < nclose; i++ {
					c := closes[i]
					if !c.returned {
						e.Violate("c07:nc-close-hang:"+s.state, "close %d never returned: %s", i, e.HangInfo)
						return
					}
					limit := grace(s.rd) + 4*s.rd + 3*cfg.Tick
					if c.t1-c.t0 > limit {
						e.Violate("c07:nc-close-slow:"+s.state, "close %d took %v > %v", i, c.t1-c.t0, limit)
					}
				}
				if tr.CloseCalls == 0 {
					e.Violate("c07:nc-transport-not-closed", "Implementation.Close never called")
				}
				for _, l := range e.Leaked {
					if s.mode == dev.CloseStaysBlocked && (strings.Contains(l, "Transport).read") || strings.Contains(l, "Channel).Close.func1")) {
						continue
					}
					e.Violate("c07:nc-goroutine-leak:"+strings.Fields(l)[0], "library goroutine alive after Close + grace: %v (all: %v)", l, e.Leaked)
				}
			})
		})
	}}
}

type hangupSource struct{ f func() bool }

func (h hangupSource) Actions() []sched.EnvAction { h.f(); return nil }

func scenarios(tier string) []sched.Scenario {
	var out []sched.Scenario
	pre := 4
	if tier == "thorough" {
		pre = 5
	}
	rds := []time.Duration{time.Microsecond, 250 * time.Microsecond, time.Millisecond}
	for _, drv := range []string{"generic", "network"} {
		for _, st := range states {
			for _, mode := range []dev.CloseMode{dev.CloseEOF, dev.CloseEIO, dev.CloseStaysBlocked, dev.CloseEOFWithErr} {
				for _, rd := range rds {
					if drv == "network" && st != "exit-onclose" && st != "idle" && st != "second-seq" && !strings.HasPrefix(st, "onclose-") && tier != "thorough" {
						continue
					}
					b := sched.Bounds{Pre: pre, Env: pre - 1, Total: pre}
					out = append(out, scenario(scn{drv, st, mode, rd, b}))
					if tier == "thorough" {
						// every interleaving of thread steps and deliveries inside the Close window
						out = append(out, scenario(scn{drv, st, mode, rd, sched.Bounds{Pre: 1000, Env: 1000, Total: 2000, MaxExecs: 2000000}}))
					}
				}
			}
		}
	}
	for _, v := range []string{"1.0", "1.1"} {
		for _, st := range ncStates {
			for _, mode := range []dev.CloseMode{dev.CloseEOF, dev.CloseEIO, dev.CloseStaysBlocked, dev.CloseEOFWithErr} {
				for _, rd := range rds {
					if tier != "thorough" && (v == "1.0" && st != "idle" || rd == 250*time.Microsecond) {
						continue
					}
					out = append(out, ncScenario(scn{"netconf", st, mode, rd, sched.Bounds{Pre: pre, Env: pre - 1, Total: pre}}, v))
					if tier == "thorough" {
						out = append(out, ncScenario(scn{"netconf", st, mode, rd, sched.Bounds{Pre: 1000, Env: 1000, Total: 2000, MaxExecs: 2000000}}, v))
					}
				}
			}
		}
	}
	return out
}

func TestCheck(t *testing.T) {
	sched.Main(t, sched.Check{
		ID:    "C07",
		Level: "model_checking",
		Rule: "scenario = (driver, connection state at Close, what a blocked transport read does on Close, read delay); for each, every interleaving of the hooked steps of reader loop, closer(s), Close's helper goroutine and environment deliveries within the preemption/deviation bound, from the moment the state is established; " +
			"oracle: Close returns within grace+3*readDelay (virtual clock), no panic in any goroutine (worker exit), Implementation.Close called, no library goroutine alive after the drain; distinct = distinct (schedule, observation)",
		Assumptions: []string{
			"read delays 1us/250us/1ms (grace 1us/62.5ms/1s); read delay 0 is excluded from schedule exploration: its grace of 0 makes Go's select choose randomly between the graceful and the forced path",
			"goroutines blocked in a transport read that ignores Close are exempt from the leak clause",
			"the data-race clause is decided by the separate free-running -race pass",
		},
		Scenarios: scenarios,
		Post:      sched.RacePost("TestC07"),
		Budget:    map[string]time.Duration{"quick": 5 * time.Minute, "thorough": 60 * time.Minute},
	})
}

package smoke

import (
	"fmt"
	"testing"
	"time"

	"github.com/scrapli/scrapligo/driver/generic"
	"github.com/scrapli/scrapligo/driver/options"

	"verif/dev"
	"verif/sched"
)

func body(e *sched.Env) {
	d := dev.NewCLI("exec", &dev.Mode{Name: "exec", Prompt: "router#", OnLine: dev.Table(map[string]dev.Reply{
		"show a": {Out: "alpha\nbeta"},
		"show b": {Out: "gamma"},
	})})
	tr := dev.NewFake(e, d)
	tr.Cuts = true
	e.Go("client", func() {
		drv, err := generic.NewDriver("h", options.WithCustomTransport(tr), options.WithReadDelay(time.Millisecond), options.WithTimeoutOps(8500*time.Microsecond))
		if err != nil {
			e.Violate("new", "%v", err)
			return
		}
		if err := drv.Open(); err != nil {
			e.Violate("open", "%v", err)
			return
		}
		p, err := drv.GetPrompt()
		e.Observe("prompt=%q err=%v", p, err)
		r, err := drv.SendCommand("show a")
		if err != nil {
			e.Violate("send", "%v", err)
		} else {
			e.Observe("a=%q", r.Result)
			if r.Result != "alpha\nbeta" {
				e.Violate("result", "got %q", r.Result)
			}
		}
		r, err = drv.SendCommand("show b")
		if err != nil {
			e.Violate("send", "%v", err)
		} else {
			e.Observe("b=%q", r.Result)
		}
		err = drv.Close()
		e.Observe("close=%v t=%v", err, e.Now())
	})
	e.OnFinish(func() {
		e.Observe("lines=%q leaked=%v verdict=%s", d.NonEmptyLines(), e.Leaked, e.Verdict)
	})
}

func TestSmoke(t *testing.T) {
	cfg := sched.Config{Classes: []string{"chan."}, Tick: time.Millisecond, Horizon: 10 * time.Second, Grace: 5 * time.Millisecond, KeepMenus: true, WantLeaks: true}
	e := sched.Exec(t, cfg, nil, nil, body)
	fmt.Println("verdict", e.Verdict, e.EngineErr, "points", len(e.Points), "viol", e.Violations)
	for _, o := range e.Obs {
		fmt.Println(" obs", o)
	}
	for i, p := range e.Points {
		if i < 60 {
			fmt.Println(i, e.Choices[i], p.Menu)
		}
	}
	e2 := sched.Exec(t, cfg, nil, nil, body)
	fmt.Println("same:", fmt.Sprint(e.Obs) == fmt.Sprint(e2.Obs), len(e2.Points), e2.Obs)
	t0 := time.Now()
	st := sched.Explore(t, cfg, sched.Bounds{Pre: 1, Env: 1, Total: 1}, body, nil, func(e *sched.Env) bool {
		if len(e.Violations) > 0 || e.Verdict != "" {
			fmt.Println("VIOL", e.Violations, e.Verdict, e.EngineErr, e.HangInfo, e.Choices)
			return false
		}
		return true
	})
	fmt.Printf("%+v %v\n", st, time.Since(t0))
}

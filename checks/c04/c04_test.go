// C04 — privilege navigation reaches the target level along the tree path.
package c04

import (
	"errors"
	"fmt"
	"sort"
	"strings"
	"testing"
	"time"

	"github.com/scrapli/scrapligo/channel"
	"github.com/scrapli/scrapligo/driver/network"
	"github.com/scrapli/scrapligo/driver/opoptions"
	"github.com/scrapli/scrapligo/driver/options"
	"github.com/scrapli/scrapligo/util"

	"verif/checks/cm"
	"verif/dev"
	"verif/sched"
)

// ---- tree shapes --------------------------------------------------------------------------------

func canon(par []int, n int) string {
	ch := make([][]int, n)
	for i := 1; i < n; i++ {
		ch[par[i]] = append(ch[par[i]], i)
	}
	var enc func(v int) string
	enc = func(v int) string {
		var s []string
		for _, c := range ch[v] {
			s = append(s, enc(c))
		}
		sort.Strings(s)
		return "(" + strings.Join(s, "") + ")"
	}
	return enc(0)
}

// shapes returns one parent array per rooted unlabelled tree with n nodes.
func shapes(n int) [][]int {
	seen := map[string]bool{}
	var out [][]int
	par := make([]int, n)
	var rec func(i int)
	rec = func(i int) {
		if i == n {
			c := canon(par, n)
			if !seen[c] {
				seen[c] = true
				out = append(out, append([]int{}, par...))
			}
			return
		}
		for p := 0; p < i; p++ {
			par[i] = p
			rec(i + 1)
		}
	}
	if n == 1 {
		return [][]int{{0}}
	}
	rec(1)
	return out
}

func levelName(i, cfg int) string {
	if i == cfg {
		return "configuration"
	}
	return fmt.Sprintf("n%d", i)
}

func buildTree(par []int, authMask int, cfg int) *cm.TreeDev {
	n := len(par)
	t := &cm.TreeDev{Levels: map[string]*network.PrivilegeLevel{}, Prompts: map[string]string{}, PwPrompt: map[string]string{}, Secret: cm.Secret,
		Commands: map[string]string{"show x": "x out", "show y": "y out", "cfg1": "", "cfg2": ""}}
	for i := 0; i < n; i++ {
		name := levelName(i, cfg)
		l := &network.PrivilegeLevel{Name: name, Pattern: fmt.Sprintf(`(?im)^dev-n%d#$`, i)}
		if i > 0 {
			l.PreviousPriv = levelName(par[i], cfg)
			l.Escalate = fmt.Sprintf("up-n%d", i)
			l.Deescalate = fmt.Sprintf("down-n%d", i)
			if authMask&(1<<(i-1)) != 0 {
				l.EscalateAuth = true
				l.EscalatePrompt = `(?im)^password:\s?$`
				t.PwPrompt[name] = "Password: "
			}
		}
		t.Levels[name] = l
		t.Prompts[name] = fmt.Sprintf("dev-n%d#", i)
	}
	return t
}

func iosxeTree() *cm.TreeDev {
	t := &cm.TreeDev{Levels: cm.StdLevels(true), Prompts: map[string]string{"exec": "router>", "privilege-exec": "router#", "configuration": "router(config)#", "tclsh": "router(tcl)#"},
		PwPrompt: map[string]string{"privilege-exec": "Password: "}, Secret: cm.Secret,
		Commands: map[string]string{"show x": "x out", "show y": "y out", "cfg1": "", "cfg2": ""}}
	t.Levels["configuration"].NotContains = []string{"tcl)"}
	t.Levels["tclsh"] = &network.PrivilegeLevel{Name: "tclsh", Pattern: `(?im)^([\w.\-@/+>:]+\(tcl\)[>#]|\+>)$`, PreviousPriv: "privilege-exec", Deescalate: "tclquit", Escalate: "tclsh"}
	return t
}

// junosTree: two sibling configuration levels with the same prompt and pattern. Which of them the device is
// in can only be known from what the driver did before, so only histories (never forced states) use it.
func junosTree() *cm.TreeDev {
	t := &cm.TreeDev{Levels: map[string]*network.PrivilegeLevel{
		"exec": {Name: "exec", Pattern: `(?im)^user@host>$`},
		"configuration": {Name: "configuration", Pattern: `(?im)^user@host#$`, PreviousPriv: "exec",
			Escalate: "configure", Deescalate: "exit configuration-mode"},
		"configuration-exclusive": {Name: "configuration-exclusive", Pattern: `(?im)^user@host#$`, PreviousPriv: "exec",
			Escalate: "configure exclusive", Deescalate: "exit configuration-mode"},
	}, Prompts: map[string]string{"exec": "user@host>", "configuration": "user@host#", "configuration-exclusive": "user@host#"},
		PwPrompt: map[string]string{}, Secret: cm.Secret,
		Commands: map[string]string{"show x": "x out", "show y": "y out", "cfg1": "", "cfg2": ""}}
	return t
}

func copyLevels(in map[string]*network.PrivilegeLevel) map[string]*network.PrivilegeLevel {
	out := map[string]*network.PrivilegeLevel{}
	for k, v := range in {
		c := *v
		out[k] = &c
	}
	return out
}

// ---- one navigation session -----------------------------------------------------------------------

type step struct {
	kind   string // acquire | nope | command | commands | configs | config | interactive | stalled
	target string
}

func (s step) String() string { return s.kind + ":" + s.target }

// firstHop is the first privilege change on the tree path from cur to target: its command, the level it
// leads to and whether the device asks for the secret.
func firstHop(t *cm.TreeDev, cur, target string) (cmd, next string, auth bool) {
	for n := target; n != ""; n = t.Levels[n].PreviousPriv {
		if t.Levels[n].PreviousPriv == cur {
			return t.Levels[n].Escalate, n, t.Levels[n].EscalateAuth
		}
		if n == cur {
			return "", cur, false
		}
	}
	return t.Levels[cur].Deescalate, t.Levels[cur].PreviousPriv, false
}

func runSession(w *sched.W, tag string, t *cm.TreeDev, root, desired string, start string, cache string, steps []step, maxChunk, env int) {
	cfg := cm.Cfg()
	cfg.NoPreAlt = true
	cfg.NoIdleAlt = env == 0
	cfg.Horizon = 10 * time.Second
	rd := cm.Ms
	if maxChunk > 0 {
		rd = 0
	}
	w.SetCase(tag)
	w.Explore(cfg, sched.Bounds{Env: env}, func(e *sched.Env) {
		d := t.Build(root)
		d.NoFirst = true // no unsolicited prompt at connect: the session starts synchronised
		tr := dev.NewFake(e, d)
		tr.MaxChunk = maxChunk
		tr.Cuts = env > 0
		var errs []error
		var setupErr error
		mark := 0
		// "stalled": the device performs the next command line but its answer is withheld until the operation
		// has timed out
		armed := false
		for _, m := range d.Modes {
			orig := m.OnLine
			m.OnLine = func(cd *dev.CLIDevice, line string) dev.Reply {
				r := orig(cd, line)
				if armed && line != "" {
					armed = false
					tr.StallAt = tr.Sent()
				}
				return r
			}
		}
		e.Go("client", func() {
			opts := cm.BaseOpts(tr, rd, 500*cm.Ms, 0)
			opts = append(opts, options.WithPrivilegeLevels(copyLevels(t.Levels)), options.WithDefaultDesiredPriv(desired), options.WithAuthSecondary(t.Secret))
			n, err := network.NewDriver("dev", opts...)
			if err != nil {
				setupErr = err
				return
			}
			if setupErr = n.Open(); setupErr != nil {
				return
			}
			if _, setupErr = n.GetPrompt(); setupErr != nil {
				return
			}
			// put the device into its starting mode behind the driver's back
			d.Cur = start
			switch cache {
			case "correct":
				n.CurrentPriv = start
			case "unknown":
				n.CurrentPriv = "UNKNOWN"
			default:
				n.CurrentPriv = cache
			}
			mark = len(d.Lines)
			e.OpenWindow()
			for _, s := range steps {
				var err error
				switch s.kind {
				case "acquire", "nope":
					err = n.AcquirePriv(s.target)
				case "stalled":
					if _, isLevel := t.Levels[d.Cur]; isLevel {
						cmd, _, auth := firstHop(t, d.Cur, s.target)
						armed = cmd != "" && !auth
					}
					err = n.AcquirePriv(s.target)
					armed = false
					tr.Release()
				case "command":
					_, err = n.SendCommand("show x")
				case "commands":
					_, err = n.SendCommands([]string{"show x", "show y"})
				case "configs":
					_, err = n.SendConfigs([]string{"cfg1", "cfg2"})
				case "config":
					_, err = n.SendConfig("cfg1\ncfg2")
				case "configs-at":
					_, err = n.SendConfigs([]string{"cfg1", "cfg2"}, opoptions.WithPrivilegeLevel(s.target))
				case "configs-end":
					// the last configuration line leaves configuration mode (as "end" / "commit and-quit" do)
					_, err = n.SendConfigs([]string{"cfg1", t.Levels["configuration"].Deescalate})
				case "interactive":
					var o []util.Option
					if s.target != desired || true {
						o = append(o, opoptions.WithPrivilegeLevel(s.target))
					}
					if s.target == "" {
						o = nil
					}
					_, err = n.SendInteractive([]*channel.SendInteractiveEvent{{ChannelInput: "show y"}}, o...)
				}
				errs = append(errs, err)
			}
		})
		e.OnFinish(func() {
			vio := func(sig, f string, a ...interface{}) { e.Violate(sig, "["+tag+"] "+f, a...) }
			if setupErr != nil || e.Verdict != "" {
				vio("c04:session-failed", "setup=%v verdict=%s %s", setupErr, e.Verdict, e.HangInfo)
				return
			}
			// reference walk
			mode := start
			var want []string
			type lm struct{ line, mode string }
			var wantModes []lm
			for i, s := range steps {
				target := s.target
				var own []string
				switch s.kind {
				case "nope":
					if !errors.Is(errs[i], util.ErrPrivilegeError) {
						vio("c04:unknown-target-not-refused", "step %d AcquirePriv(%q) returned %v", i, s.target, errs[i])
					}
					continue
				case "stalled":
					if cmd, next, auth := firstHop(t, mode, target); cmd != "" && !auth {
						// the first hop was performed by the device, its answer came after the timeout
						if cm.ErrClass(errs[i]) != "timeout" {
							vio("c04:stalled-hop-no-timeout", "step %d %s from %s: %v", i, s, mode, errs[i])
							return
						}
						want = append(want, cmd)
						mode = next
						continue
					}
				case "command":
					target, own = desired, []string{"show x"}
				case "commands":
					target, own = desired, []string{"show x", "show y"}
				case "configs", "config":
					target, own = "configuration", []string{"cfg1", "cfg2"}
				case "configs-at":
					own = []string{"cfg1", "cfg2"}
				case "configs-end":
					if errs[i] != nil {
						vio("c04:operation-failed", "step %d %s from %s: %v", i, s, mode, errs[i])
						return
					}
					want = append(want, t.Path(mode, "configuration")...)
					want = append(want, "cfg1", t.Levels["configuration"].Deescalate)
					wantModes = append(wantModes, lm{"cfg1", "configuration"})
					mode = t.Levels["configuration"].PreviousPriv
					continue
				case "interactive":
					if target == "" {
						target = desired
					}
					own = []string{"show y"}
				}
				if errs[i] != nil {
					vio("c04:operation-failed", "step %d %s from %s: %v", i, s, mode, errs[i])
					return
				}
				want = append(want, t.Path(mode, target)...)
				for _, o := range own {
					want = append(want, o)
					wantModes = append(wantModes, lm{o, target})
				}
				mode = target
			}
			var got []string
			var gotModes []lm
			wrong := ""
			for _, l := range d.Lines[mark:] {
				if l.Line == "" {
					continue
				}
				got = append(got, l.Line)
				if l.Wrong && wrong == "" {
					wrong = fmt.Sprintf("%q in mode %s", l.Line, l.Mode)
				}
				if _, isCmd := t.Commands[l.Line]; isCmd {
					gotModes = append(gotModes, lm{l.Line, l.Mode})
				}
			}
			e.Observe("final=%s lines=%d", d.Cur, len(got))
			if wrong != "" {
				vio("c04:wrong-mode-line", "device objected to %s; received %q", wrong, got)
			}
			if strings.Join(got, "|") != strings.Join(want, "|") {
				vio("c04:commands-differ-from-tree-path", "device received %q want %q", got, want)
			}
			if d.Cur != mode {
				vio("c04:wrong-final-level", "device ended in %s want %s", d.Cur, mode)
			}
			if fmt.Sprint(gotModes) != fmt.Sprint(wantModes) {
				vio("c04:line-at-wrong-level", "lines arrived at %v want %v", gotModes, wantModes)
			}
		})
	})
}

func pairScenario(par []int, mask int, maxChunk, env int, noask ...bool) sched.Scenario {
	n := len(par)
	name := fmt.Sprintf("pairs/shape=%v/auth=%d/chunk=%d/env=%d", par, mask, maxChunk, env)
	if len(noask) > 0 {
		name += "/noask"
	}
	return sched.Scenario{Name: name, Run: func(w *sched.W) {
		t := buildTree(par, mask, -1)
		t.NoAsk = len(noask) > 0 // the device lets authenticated escalations through without asking
		for cur := 0; cur < n; cur++ {
			for tgt := 0; tgt < n; tgt++ {
				for _, cache := range []string{"correct", "unknown", "stale"} {
					c := cache
					if cache == "stale" {
						c = levelName((cur+1)%n, -1)
					}
					tag := fmt.Sprintf("cur=n%d target=n%d cache=%s", cur, tgt, cache)
					if r := w.Replaying(); r != nil && r.Case != tag {
						continue
					}
					runSession(w, tag, t, "n0", "n0", levelName(cur, -1), c, []step{{"acquire", levelName(tgt, -1)}}, maxChunk, env)
				}
			}
		}
	}}
}

func seqScenario(treeName string, t *cm.TreeDev, root, desired string, first step, maxLen int) sched.Scenario {
	name := fmt.Sprintf("seq/%s/desired=%s/first=%s", treeName, desired, first)
	return sched.Scenario{Name: name, Run: func(w *sched.W) {
		var levels []string
		for l := range t.Levels {
			levels = append(levels, l)
		}
		sort.Strings(levels)
		alphabet := []step{{"command", ""}, {"commands", ""}, {"configs", ""}, {"config", ""}, {"nope", "nope"}, {"interactive", ""}}
		for _, l := range levels {
			alphabet = append(alphabet, step{"acquire", l}, step{"interactive", l})
			if treeName != "junos" {
				// after an interrupted hop only the prompt can tell the level: not with ambiguous prompts
				alphabet = append(alphabet, step{"stalled", l})
			} else {
				alphabet = append(alphabet, step{"configs-at", l})
			}
		}
		alphabet = append(alphabet, step{"configs-end", ""})
		seq := []step{first}
		var rec func()
		rec = func() {
			var names []string
			for _, s := range seq {
				names = append(names, s.String())
			}
			tag := strings.Join(names, ",")
			if r := w.Replaying(); r == nil || r.Case == tag {
				runSession(w, tag, t, root, desired, root, "", seq, 0, 0)
			}
			if len(seq) == maxLen {
				return
			}
			for _, s := range alphabet {
				seq = append(seq, s)
				rec()
				seq = seq[:len(seq)-1]
			}
		}
		rec()
	}}
}

func scenarios(tier string) []sched.Scenario {
	var out []sched.Scenario
	for n := 1; n <= 5; n++ {
		for _, par := range shapes(n) {
			masks := 1
			if n <= 4 {
				masks = 1 << (n - 1)
			}
			for m := 0; m < masks; m++ {
				out = append(out, pairScenario(par, m, 0, 0))
				out = append(out, pairScenario(par, m, 1, 0))
				out = append(out, pairScenario(par, m, 0, 1))
				if m != 0 {
					out = append(out, pairScenario(par, m, 0, 0, true), pairScenario(par, m, 1, 0, true))
					if n <= 4 {
						out = append(out, pairScenario(par, m, 0, 1, true))
					}
				}
				if tier == "thorough" && n <= 4 {
					out = append(out, pairScenario(par, m, 0, 2))
				}
			}
		}
	}
	maxLen := 2
	if tier == "thorough" {
		maxLen = 3
	}
	ios := iosxeTree()
	iosNoAsk := iosxeTree()
	iosNoAsk.NoAsk = true
	y := buildTree([]int{0, 0, 1, 1, 2}, 0, 3)
	firsts := []step{{"command", ""}, {"commands", ""}, {"configs", ""}, {"config", ""}, {"nope", "nope"}, {"interactive", ""}}
	for _, tr := range []struct {
		name          string
		t             *cm.TreeDev
		root, desired string
	}{{"iosxe", ios, "exec", "privilege-exec"}, {"iosxe", ios, "exec", "exec"}, {"iosxe-noask", iosNoAsk, "exec", "privilege-exec"}, {"Y", y, "n0", "n1"}, {"Y", y, "n0", "n4"}, {"junos", junosTree(), "exec", "exec"}} {
		var levels []string
		for l := range tr.t.Levels {
			levels = append(levels, l)
		}
		sort.Strings(levels)
		fs := append([]step{}, firsts...)
		for _, l := range levels {
			fs = append(fs, step{"acquire", l}, step{"interactive", l})
		}
		for _, f := range fs {
			out = append(out, seqScenario(tr.name, tr.t, tr.root, tr.desired, f, maxLen+1))
		}
	}
	return out
}

func TestCheck(t *testing.T) {
	sched.Main(t, sched.Check{
		ID:          "C04",
		Level:       "model_checking",
		Rule:        "trees: every rooted unlabelled shape with <=5 nodes (17) x every subset of authenticated edges (n<=4); for each every ordered (current, target) pair x driver cache {correct, UNKNOWN, stale} with the device forced into `current`, on a device that asks for the secret on authenticated edges and on one that grants them without asking, whole-buffer and 1-byte reads (+ every single extra cut/hold; every two for n<=4 in thorough); histories: every sequence of <=3 (4 thorough) operations over {SendCommand, SendCommands, SendConfigs, SendConfig, AcquirePriv(each level), AcquirePriv(unknown), SendInteractive(default / at each level)} incl. config lines that leave configuration mode, configs at an explicit level and hops answered after the timeout, on the IOS-XE 4-level tree (authenticated enable, not-contains disambiguation), a 5-node Y tree (two default levels each) and a Junos-like tree with two same-prompt configuration levels; device model = one mode per level that objects to anything but its own transitions; oracle = unique tree path, final level, level at which each line arrived",
		Assumptions: []string{"levels have pairwise distinguishable prompts (so Go map iteration order cannot change the result), except in the Junos-like history tree whose two configuration levels share one prompt: there the device is only ever moved by the driver and no hop is interrupted", "the secondary secret is configured whenever an edge is authenticated"},
		Scenarios:   scenarios,
		Budget:      map[string]time.Duration{"quick": 5 * time.Minute, "thorough": 40 * time.Minute},
	})
}

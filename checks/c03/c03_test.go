// C03 — NETCONF requests on the wire are correctly framed and carry the caller's content.
package c03

import (
	"bytes"
	"encoding/xml"
	"fmt"
	"strconv"
	"strings"
	"testing"
	"time"

	"github.com/scrapli/scrapligo/driver/netconf"
	"github.com/scrapli/scrapligo/driver/opoptions"
	"github.com/scrapli/scrapligo/driver/options"
	"github.com/scrapli/scrapligo/response"

	"verif/checks/cm"
	"verif/dev"
	"verif/sched"
)

const (
	xmlHeader = `<?xml version="1.0" encoding="UTF-8"?>`
	nsDef     = "urn:ietf:params:xml:ns:yang:ietf-netconf-with-defaults"
)

type opCase struct {
	name string
	call func(d *netconf.Driver) (*response.NetconfResponse, error)
	want string // body of the rpc element as the RFC describes it
	raw  string // caller's raw XML that must appear verbatim in Input when self-closing is off
}

type payload struct{ name, xml string }

var payloads = []payload{
	{"plain", `<interfaces xmlns="urn:x"><interface><name>eth0</name></interface></interfaces>`},
	{"utf8", `<desc>é日本語ü</desc>`},
	{"long", `<d>` + strings.Repeat("x", 5000) + `</d>`},
	// long multi-byte payloads at every alignment of a 4-byte character: whatever size a sender splits long
	// messages at, a character straddles the boundary in some of them
	{"longwide0", `<d>` + strings.Repeat("😀", 1500) + `</d>`},
	{"longwide1", `<d>a` + strings.Repeat("😀", 1500) + `</d>`},
	{"longwide2", `<d>ab` + strings.Repeat("😀", 1500) + `</d>`},
	{"longwide3", `<d>abc` + strings.Repeat("😀", 1500) + `</d>`},
	{"attrs", `<a:sys xmlns:a="urn:a" a:op="merge" b="c"><a:x/></a:sys>`},
	{"selfclosed", `<a/>`},
	{"emptypair", `<a></a>`},
	{"spacepair", `<a> </a>`},
	{"emptyattr", `<a b="c"></a>`},
	{"nestedempty", `<a><b></b><c>t</c><d x="1"></d></a>`},
	{"entities", `<a>x &lt; y &amp; z</a>`},
	{"siblings", `<a><b/><b></b><e>1</e></a>`},
	{"percent", `<d>95% load %20b %% 100%s %d%v %!</d>`},                       // verbs, were the payload ever used as a format string
	{"wsempties", "<w><a>\n</a><b></b><c>t</c><d x=\"1\">\n  </d><e></e></w>"}, // several empty elements, some with inner whitespace: offsets of later rewrites depend on earlier ones
}

var xpaths = []string{`/interfaces/interface[name='eth0']`, `//x[@y<"3" and z>'1']/é`}

func esc(s string) string {
	var sb strings.Builder
	_ = xml.EscapeText(&sb, []byte(s))
	return sb.String()
}

func cases() []opCase {
	var out []opCase
	ds := []string{"running", "candidate", "startup"}
	// get
	out = append(out, opCase{"get/nofilter", func(d *netconf.Driver) (*response.NetconfResponse, error) { return d.Get("") }, `<get></get>`, ""})
	for _, p := range payloads {
		p := p
		out = append(out, opCase{"get/subtree/" + p.name, func(d *netconf.Driver) (*response.NetconfResponse, error) { return d.Get(p.xml) },
			`<get><filter type="subtree">` + p.xml + `</filter></get>`, p.xml})
	}
	for i, x := range xpaths {
		x := x
		out = append(out, opCase{"get/xpath/" + strconv.Itoa(i), func(d *netconf.Driver) (*response.NetconfResponse, error) {
			return d.Get(x, opoptions.WithFilterType("xpath"))
		}, `<get><filter type="xpath" select="` + esc(x) + `"></filter></get>`, ""})
	}
	// get-config
	defs := []string{"", "report-all", "trim", "explicit", "report-all-tagged"}
	for _, s := range ds {
		for _, df := range defs {
			for fi := -1; fi < len(payloads); fi++ {
				if fi >= 0 && df != "" && fi > 1 {
					continue
				}
				s, df, fi := s, df, fi
				want := `<get-config><source><` + s + `/></source>`
				raw := ""
				var opts []func() interface{}
				_ = opts
				name := "get-config/" + s + "/def=" + df
				if fi >= 0 {
					want += `<filter type="subtree">` + payloads[fi].xml + `</filter>`
					raw = payloads[fi].xml
					name += "/filter=" + payloads[fi].name
				}
				if df != "" {
					want += `<with-defaults xmlns="` + nsDef + `">` + df + `</with-defaults>`
				}
				want += `</get-config>`
				out = append(out, opCase{name, func(d *netconf.Driver) (*response.NetconfResponse, error) {
					var o []func(interface{}) error
					_ = o
					if fi >= 0 && df != "" {
						return d.GetConfig(s, opoptions.WithFilter(payloads[fi].xml), opoptions.WithDefaultType(df))
					}
					if fi >= 0 {
						return d.GetConfig(s, opoptions.WithFilter(payloads[fi].xml))
					}
					if df != "" {
						return d.GetConfig(s, opoptions.WithDefaultType(df))
					}
					return d.GetConfig(s)
				}, want, raw})
			}
		}
		s := s
		x := xpaths[1]
		out = append(out, opCase{"get-config/" + s + "/xpath", func(d *netconf.Driver) (*response.NetconfResponse, error) {
			return d.GetConfig(s, opoptions.WithFilter(x), opoptions.WithFilterType("xpath"))
		}, `<get-config><source><` + s + `/></source><filter type="xpath" select="` + esc(x) + `"></filter></get-config>`, ""})
	}
	for _, t := range ds {
		t := t
		for _, p := range payloads {
			p := p
			out = append(out, opCase{"edit-config/" + t + "/" + p.name, func(d *netconf.Driver) (*response.NetconfResponse, error) {
				return d.EditConfig(t, "<config>"+p.xml+"</config>")
			},
				`<edit-config><target><` + t + `/></target><config>` + p.xml + `</config></edit-config>`, "<config>" + p.xml + "</config>"})
		}
		for _, s := range ds {
			s := s
			out = append(out, opCase{"copy-config/" + s + ">" + t, func(d *netconf.Driver) (*response.NetconfResponse, error) { return d.CopyConfig(s, t) },
				`<copy-config><target><` + t + `/></target><source><` + s + `/></source></copy-config>`, ""})
		}
		out = append(out,
			opCase{"delete-config/" + t, func(d *netconf.Driver) (*response.NetconfResponse, error) { return d.DeleteConfig(t) }, `<delete-config><target><` + t + `/></target></delete-config>`, ""},
			opCase{"lock/" + t, func(d *netconf.Driver) (*response.NetconfResponse, error) { return d.Lock(t) }, `<lock><target><` + t + `/></target></lock>`, ""},
			opCase{"unlock/" + t, func(d *netconf.Driver) (*response.NetconfResponse, error) { return d.Unlock(t) }, `<unlock><target><` + t + `/></target></unlock>`, ""},
			opCase{"validate/" + t, func(d *netconf.Driver) (*response.NetconfResponse, error) { return d.Validate(t) }, `<validate><source><` + t + `/></source></validate>`, ""},
		)
	}
	out = append(out,
		opCase{"commit/plain", func(d *netconf.Driver) (*response.NetconfResponse, error) { return d.Commit() }, `<commit></commit>`, ""},
		opCase{"commit/confirmed", func(d *netconf.Driver) (*response.NetconfResponse, error) {
			return d.Commit(opoptions.WithCommitConfirmed())
		}, `<commit><confirmed/></commit>`, ""},
		opCase{"commit/confirmed-timeout", func(d *netconf.Driver) (*response.NetconfResponse, error) {
			return d.Commit(opoptions.WithCommitConfirmed(), opoptions.WithCommitConfirmTimeout(120))
		}, `<commit><confirmed/><confirm-timeout>120</confirm-timeout></commit>`, ""},
		opCase{"commit/confirmed-persist", func(d *netconf.Driver) (*response.NetconfResponse, error) {
			return d.Commit(opoptions.WithCommitConfirmed(), opoptions.WithCommitConfirmedPersist("tok-é<1>"))
		}, `<commit><confirmed/><persist>` + esc("tok-é<1>") + `</persist></commit>`, ""},
		opCase{"commit/persist-id", func(d *netconf.Driver) (*response.NetconfResponse, error) {
			return d.Commit(opoptions.WithCommitConfirmedPersistID("tok-é<1>"))
		}, `<commit><persist-id>` + esc("tok-é<1>") + `</persist-id></commit>`, ""},
		opCase{"commit/confirmed+persist-id", func(d *netconf.Driver) (*response.NetconfResponse, error) {
			// the follow-up of a persistent confirmed commit (RFC 6241 8.4.1): both elements
			return d.Commit(opoptions.WithCommitConfirmed(), opoptions.WithCommitConfirmedPersistID("tok-é<1>"))
		}, `<commit><confirmed/><persist-id>` + esc("tok-é<1>") + `</persist-id></commit>`, ""},
		opCase{"commit/confirmed-timeout-persist", func(d *netconf.Driver) (*response.NetconfResponse, error) {
			return d.Commit(opoptions.WithCommitConfirmed(), opoptions.WithCommitConfirmTimeout(60), opoptions.WithCommitConfirmedPersist("p1"))
		}, `<commit><confirmed/><confirm-timeout>60</confirm-timeout><persist>p1</persist></commit>`, ""},
		opCase{"discard", func(d *netconf.Driver) (*response.NetconfResponse, error) { return d.Discard() }, `<discard-changes></discard-changes>`, ""},
	)
	for _, p := range payloads {
		p := p
		out = append(out, opCase{"rpc/" + p.name, func(d *netconf.Driver) (*response.NetconfResponse, error) { return d.RPC(opoptions.WithFilter(p.xml)) }, p.xml, p.xml})
	}
	return out
}

type cell struct {
	version     string
	selfClosing bool
	noHeader    bool
}

func (c cell) String() string {
	return fmt.Sprintf("v%s/sc=%v/nohdr=%v", c.version, c.selfClosing, c.noHeader)
}

func scenario(oc opCase) sched.Scenario {
	return sched.Scenario{Name: oc.name, Run: func(w *sched.W) {
		inputs := map[string]string{} // cell/pos -> Input of the op under test
		filler := func(d *netconf.Driver) (*response.NetconfResponse, error) { return d.Lock("running") }
		for _, v := range []string{"1.0", "1.1"} {
			for _, sc := range []bool{false, true} {
				for _, nh := range []bool{false, true} {
					for pos := 0; pos < 3; pos++ {
						c := cell{v, sc, nh}
						key := fmt.Sprintf("%s/pos=%d", c, pos)
						cfg := cm.Cfg()
						cfg.NoPreAlt, cfg.NoIdleAlt = true, true
						cfg.Horizon = 5 * time.Second
						w.Explore(cfg, sched.Bounds{}, func(e *sched.Env) {
							caps := []string{dev.Cap10}
							if v == "1.1" {
								caps = append(caps, dev.Cap11)
							}
							srv := &dev.NCServer{Hello: dev.HelloDoc(caps, "3")}
							tr := dev.NewFake(e, srv)
							srv.Out = tr.Inject
							tr.NextEnd = srv.NextEnd
							var resps []*response.NetconfResponse
							var errs []error
							var openErr error
							e.Go("client", func() {
								opts := cm.BaseOpts(tr, cm.Ms, time.Second, 0)
								if sc {
									opts = append(opts, options.WithNetconfForceSelfClosingTags())
								}
								if nh {
									opts = append(opts, options.WithNetconfExcludeHeader())
								}
								d, err := netconf.NewDriver("dev", opts...)
								if err != nil {
									openErr = err
									return
								}
								if openErr = d.Open(); openErr != nil {
									return
								}
								for i := 0; i < 3; i++ {
									f := filler
									if i == pos {
										f = oc.call
									}
									r, err := f(d)
									resps, errs = append(resps, r), append(errs, err)
								}
								// canaries: option-less requests after the one under test carry nothing of it
								for _, f := range []func(*netconf.Driver) (*response.NetconfResponse, error){
									func(d *netconf.Driver) (*response.NetconfResponse, error) { return d.GetConfig("candidate") },
									func(d *netconf.Driver) (*response.NetconfResponse, error) { return d.Get("") },
								} {
									r, err := f(d)
									resps, errs = append(resps, r), append(errs, err)
								}
							})
							e.OnFinish(func() {
								vio := func(sig, format string, a ...interface{}) {
									e.Violate(sig, "[%s] "+format, append([]interface{}{key}, a...)...)
								}
								if openErr != nil || e.Verdict != "" {
									vio("c03:session-failed", "open=%v verdict=%s %s", openErr, e.Verdict, e.HangInfo)
									return
								}
								for i, err := range errs {
									if err != nil || resps[i] == nil {
										vio("c03:rpc-failed", "request %d: %v", i, err)
										return
									}
								}
								// 1. strict decoding of everything after the client hello
								rcv := srv.Received
								hi := bytes.Index(rcv, []byte(dev.Delim10))
								if hi < 0 {
									vio("c03:no-hello", "server never saw the hello delimiter")
									return
								}
								msgs, err := dev.StrictStream(v, rcv[hi+len(dev.Delim10):])
								if err != nil {
									vio("c03:stream-not-strictly-framed", "%v", err)
									return
								}
								if len(msgs) != 5 {
									vio("c03:message-count", "decoded %d messages for 5 requests", len(msgs))
									return
								}
								for ci, body := range []string{`<get-config><source><candidate/></source></get-config>`, `<get></get>`} {
									wantDoc := `<rpc xmlns="` + dev.NSBase + `" message-id="` + strconv.Itoa(104+ci) + `">` + body + `</rpc>`
									got, e1 := cm.ParseXML(resps[3+ci].Input)
									want, e2 := cm.ParseXML([]byte(wantDoc))
									if e1 != nil || e2 != nil {
										vio("c03:canary-not-well-formed", "%v %v: %q", e1, e2, trunc(resps[3+ci].Input))
									} else if d := cm.DiffXML(got, want, ""); d != "" {
										vio("c03:later-request-carries-foreign-content", "option-less request %d after the request under test: %s\n got  %q\n want %q", 3+ci, d, trunc(resps[3+ci].Input), wantDoc)
									}
								}
								for i, m := range msgs {
									r := resps[i]
									if !bytes.Equal(m, r.Input) {
										vio("c03:wire-differs-from-input", "request %d: decoded %q, response.Input %q", i, trunc(m), trunc(r.Input))
									}
									// FramedInput is Input in the negotiated framing: any valid framing of it (the line feed that
									// opens a 1.1 chunk stream and the one that ends its end marker are sent by themselves, as the
									// return character of the previous message and of this one)
									fm, ferr := dev.StrictStream(v, append(append([]byte{'\n'}, r.FramedInput...), '\n'))
									if ferr != nil || len(fm) != 1 || !bytes.Equal(fm[0], r.Input) {
										vio("c03:framed-input", "request %d: FramedInput %q is not the framed form of Input (%v)", i, trunc(r.FramedInput), ferr)
									}
								}
								// 2. content of the request under test
								in := resps[pos].Input
								inputs[key] = string(in)
								hasHdr := bytes.HasPrefix(in, []byte(xmlHeader))
								if hasHdr == nh {
									vio("c03:header-option", "exclude-header=%v but Input starts %q", nh, trunc(in))
								}
								got, err := cm.ParseXML(in)
								if err != nil {
									vio("c03:not-well-formed", "%v: %q", err, trunc(in))
									return
								}
								wantDoc := `<rpc xmlns="` + dev.NSBase + `" message-id="` + strconv.Itoa(101+pos) + `">` + oc.want + `</rpc>`
								want, err := cm.ParseXML([]byte(wantDoc))
								if err != nil {
									vio("c03:harness-bad-expectation", "%v: %s", err, wantDoc)
									return
								}
								if d := cm.DiffXML(got, want, ""); d != "" {
									vio("c03:content-differs", "%s\n got  %q\n want %q", d, trunc(in), trunc([]byte(wantDoc)))
								}
								if !sc && oc.raw != "" && !bytes.Contains(in, []byte(oc.raw)) {
									vio("c03:payload-altered", "caller's XML %q does not appear verbatim in %q", trunc([]byte(oc.raw)), trunc(in))
								}
								e.Observe("%s len=%d", key, len(in))
							})
						})
					}
				}
			}
		}
		// 3. option independence across cells
		for _, v := range []string{"1.0", "1.1"} {
			for pos := 0; pos < 3; pos++ {
				base := inputs[fmt.Sprintf("%s/pos=%d", cell{v, false, false}, pos)]
				noh := inputs[fmt.Sprintf("%s/pos=%d", cell{v, false, true}, pos)]
				scI := inputs[fmt.Sprintf("%s/pos=%d", cell{v, true, false}, pos)]
				if base == "" || noh == "" || scI == "" {
					continue
				}
				if base != xmlHeader+noh {
					w.Violate("c03:header-changes-more-than-declaration", fmt.Sprintf("%s v%s pos %d: with %q / without %q", oc.name, v, pos, trunc([]byte(base)), trunc([]byte(noh))), oc.name)
				}
				a, e1 := cm.ParseXML([]byte(base))
				b, e2 := cm.ParseXML([]byte(scI))
				if e1 == nil && e2 == nil {
					if d := cm.DiffXML(a, b, ""); d != "" {
						w.Violate("c03:self-closing-changes-infoset", fmt.Sprintf("%s v%s pos %d: %s\n off %q\n on  %q", oc.name, v, pos, d, trunc([]byte(base)), trunc([]byte(scI))), oc.name)
					}
				}
				v10 := inputs[fmt.Sprintf("%s/pos=%d", cell{"1.0", false, false}, pos)]
				if v10 != "" && v10 != base {
					w.Violate("c03:version-changes-payload", fmt.Sprintf("%s pos %d", oc.name, pos), oc.name)
				}
			}
		}
	}}
}

func trunc(b []byte) string {
	if len(b) > 400 {
		return string(b[:200]) + "…" + string(b[len(b)-150:])
	}
	return string(b)
}

// prefScenario: the server offers both base versions and the user states a preference: the requests must be framed
// the way the two hellos negotiated (the server model derives its framing from the client's hello, as a server does).
func prefScenario(pref string) sched.Scenario {
	return sched.Scenario{Name: "negotiated-framing/preferred=" + pref, Run: func(w *sched.W) {
		cfg := cm.Cfg()
		cfg.NoPreAlt, cfg.NoIdleAlt = true, true
		cfg.Horizon = 5 * time.Second
		w.Explore(cfg, sched.Bounds{}, func(e *sched.Env) {
			srv := &dev.NCServer{Hello: dev.HelloDoc([]string{dev.Cap10, dev.Cap11}, "3")}
			tr := dev.NewFake(e, srv)
			srv.Out = tr.Inject
			tr.NextEnd = srv.NextEnd
			var resps []*response.NetconfResponse
			var errs []error
			var openErr error
			e.Go("client", func() {
				opts := cm.BaseOpts(tr, cm.Ms, time.Second, 0)
				if pref != "" {
					opts = append(opts, options.WithNetconfPreferredVersion(pref))
				}
				d, err := netconf.NewDriver("dev", opts...)
				if err != nil {
					openErr = err
					return
				}
				if openErr = d.Open(); openErr != nil {
					return
				}
				for _, f := range []func() (*response.NetconfResponse, error){
					func() (*response.NetconfResponse, error) { return d.Lock("running") },
					func() (*response.NetconfResponse, error) { return d.GetConfig("running") },
					func() (*response.NetconfResponse, error) { return d.Commit() },
				} {
					r, err := f()
					resps, errs = append(resps, r), append(errs, err)
				}
			})
			e.OnFinish(func() {
				if openErr != nil || e.Verdict != "" {
					e.Violate("c03:session-failed", "[preferred=%s] open=%v verdict=%s %s", pref, openErr, e.Verdict, e.HangInfo)
					return
				}
				want := "1.1"
				if pref == "1.0" {
					want = "1.0"
				}
				if srv.Version != want {
					e.Violate("c03:hellos-negotiate-other-version", "[preferred=%s] the two hellos negotiate %s", pref, srv.Version)
				}
				rcv := srv.Received
				hi := bytes.Index(rcv, []byte(dev.Delim10))
				if hi < 0 {
					e.Violate("c03:no-hello", "server never saw the hello delimiter")
					return
				}
				msgs, err := dev.StrictStream(srv.Version, rcv[hi+len(dev.Delim10):])
				if err != nil || len(msgs) != 3 {
					e.Violate("c03:stream-not-in-negotiated-framing", "[preferred=%s] negotiated %s: %d messages decoded, %v", pref, srv.Version, len(msgs), err)
					return
				}
				for i, err := range errs {
					if err != nil || resps[i] == nil || !bytes.Equal(msgs[i], resps[i].Input) {
						e.Violate("c03:rpc-failed", "[preferred=%s] request %d: %v", pref, i, err)
					}
				}
				e.Observe("pref=%s negotiated=%s", pref, srv.Version)
			})
		})
	}}
}

func scenarios(tier string) []sched.Scenario {
	var out []sched.Scenario
	for _, c := range cases() {
		out = append(out, scenario(c))
	}
	for _, p := range []string{"", "1.0", "1.1"} {
		out = append(out, prefScenario(p))
	}
	return out
}

func TestCheck(t *testing.T) {
	sched.Main(t, sched.Check{
		ID:    "C03",
		Level: "exploration",
		Rule: "exhaustive product: operation (get, get-config, edit-config, copy/delete-config, lock/unlock, validate, 7 commit variants, discard, raw rpc) x argument alphabet (3 datastores, 17 XML payloads incl. multi-byte, 5000-byte, 6000 bytes of 4-byte characters at 4 alignments, attributes/namespaces, empty-element spellings (several per document, with inner whitespace), entities, percent signs; 2 xpath strings; 5 defaults modes) x {1.0,1.1} x {self-closing on,off} x {header on,off} x position 1..3 in a session (followed by two option-less canary requests that must carry nothing of it); each cell is one session on the real driver over the server model; " +
			"oracle: strict RFC 6242 / end-of-message stream decoder over the bytes the server received, byte equality with Response.Input/FramedInput, encoding/xml tree equality with an independently written RFC 6241 template, option-independence comparisons across cells; distinct = distinct (operation case, cell, position)",
		Assumptions: []string{"whitespace-only text equals no text (what forcing self-closing tags may change)", "0 schedule deviations: the property has no schedule dimension"},
		Scenarios:   scenarios,
		Budget:      map[string]time.Duration{"quick": 5 * time.Minute, "thorough": 10 * time.Minute},
	})
}

// C10 — in-channel login succeeds iff the device admits us; attempts are bounded.
package c10

import (
	"fmt"
	"github.com/scrapli/scrapligo/logging"
	"regexp"
	"strings"
	"testing"
	"time"

	"github.com/scrapli/scrapligo/driver/generic"
	"github.com/scrapli/scrapligo/driver/netconf"
	"github.com/scrapli/scrapligo/driver/options"
	"github.com/scrapli/scrapligo/transport"

	"verif/checks/cm"
	"verif/dev"
	"verif/sched"
)

const (
	passphrase = "k3y-PHRASE"
	shell      = "router#"
)

var (
	userRe = regexp.MustCompile(`(?im)^(.*username:)|(.*login:)\s?$`)
	passRe = regexp.MustCompile(`(?im)(.*@.*)?password:\s?$`)
	ppRe   = regexp.MustCompile(`(?i)enter passphrase for key`)
	prRe   = regexp.MustCompile(`(?im)^[a-z\d.\-@()/:]{1,48}[#>$]\s*$`)
)

// trailing output: after admitting us the device goes on printing (a log line and the prompt again)
const trailText = "\n%SYS-5-LOGIN: admin logged in on vty0\n" + shell

type dlg struct {
	kind     string // telnet | telnet-passonly | ssh | ssh-nc
	banner   int    // 0 none, 1 motd, 2 "Last login"
	userSp   int
	passSp   int
	rLogin   int // rejected attempts (telnet: user+password pairs; ssh: password)
	rPP      int // -1: no passphrase asked; else rejected passphrase attempts
	errLine  int // -1 none, else index into sshErrors
	errWhere int // 0 before anything, 1 after the banner, 2 after the banner and followed in the same burst by more client chatter than the prompt search depth
	maxChunk int
	env      int
	trail    bool // the device prints trailText right after the first shell prompt
}

func (d dlg) name() string {
	n := fmt.Sprintf("%s/banner=%d/user=%d/pass=%d/rej=%d/pp=%d/err=%d.%d/chunk=%d/env=%d", d.kind, d.banner, d.userSp, d.passSp, d.rLogin, d.rPP, d.errLine, d.errWhere, d.maxChunk, d.env)
	if d.trail {
		n += "/trail"
	}
	return n
}

var userSpellings = []string{"Username: ", "login: ", "router login: "}
var passSpellings = []string{"Password: ", "password:", "admin@dev's password: "}
var banners = []string{"", "Authorized access only!\nAll activity is monitored.\n", "Last login: Sun Oct  4 10:00:00 2026 from 10.0.0.1\n",
	// a message of the day longer than the default prompt search depth (only used by the trailing-output dialogues)
	"Last login: yesterday\n" + strings.Repeat("* maintenance window tonight, see the change calendar for details *\n", 24)}
var sshErrors = []string{
	"Host key verification failed.", "ssh: connect to host dev port 22: Operation timed out", "ssh: connect to host dev port 22: Connection timed out",
	"ssh: connect to host dev port 22: No route to host", "Unable to negotiate with dev port 22: no matching host key type found. Their offer: ssh-rsa",
	"Unable to negotiate with dev port 22: no matching key exchange method found. Their offer: diffie-hellman-group1-sha1",
	"Unable to negotiate with dev port 22: no matching cipher found. Their offer: aes128-cbc", "command-line: line 0: Bad configuration option: foo",
	"@ WARNING: UNPROTECTED PRIVATE KEY FILE! @", "ssh: Could not resolve hostname dev: Name or service not known", "admin@dev: Permission denied (publickey,password).",
}

func strp(s string) *string { return &s }

// welcome0 is what the device prints when it admits us (before the shell prompt).
func welcome0(s dlg) string {
	if w := banners[s.banner]; w != "" {
		return w
	}
	return shell
}

func build(s dlg) *dev.CLIDevice {
	attempts, ppAttempts := 0, 0
	passPrompt := passSpellings[s.passSp]
	userPrompt := userSpellings[s.userSp]
	welcome := banners[s.banner]
	shellMode := &dev.Mode{Name: "shell", Prompt: shell, OnLine: func(_ *dev.CLIDevice, line string) dev.Reply {
		if line == "" {
			return dev.Reply{}
		}
		return dev.Reply{Out: "% Unknown command", Wrong: true}
	}}
	nc := s.kind == "ssh-nc"
	admit := func() dev.Reply {
		if nc {
			h := dev.HelloDoc([]string{dev.Cap10}, "5") + dev.Delim10
			return dev.Reply{Raw: &h, Next: "netconf"}
		}
		out := welcome + shell
		if s.trail {
			out += trailText
		}
		return dev.Reply{Raw: &out, Next: "shell"}
	}
	var modes []*dev.Mode
	modes = append(modes, shellMode, &dev.Mode{Name: "netconf", Prompt: "", NoEcho: true})
	modes = append(modes, &dev.Mode{Name: "ask-user", Prompt: userPrompt, OnLine: func(_ *dev.CLIDevice, line string) dev.Reply {
		return dev.Reply{Raw: &passPrompt, Next: "ask-pass", Wrong: line != cm.User}
	}})
	modes = append(modes, &dev.Mode{Name: "ask-pass", Prompt: passPrompt, NoEcho: true, OnLine: func(_ *dev.CLIDevice, line string) dev.Reply {
		bad := line != cm.Pass
		if attempts < s.rLogin {
			attempts++
			switch {
			case s.kind == "telnet", s.kind == "telnet-repass-even" && attempts%2 == 0, s.kind == "telnet-repass-odd" && attempts%2 == 1:
				return dev.Reply{Raw: strp("% Login invalid\n\n" + userPrompt), Next: "ask-user", Wrong: bad}
			case strings.HasPrefix(s.kind, "telnet-repass"):
				// the device asks for the password once more before it falls back to the user-name prompt
				return dev.Reply{Raw: strp("% Password incorrect\n" + passPrompt), Wrong: bad}
			default:
				return dev.Reply{Raw: &passPrompt, Wrong: bad}
			}
		}
		r := admit()
		r.Wrong = bad
		return r
	}})
	ppPrompt := "Enter passphrase for key '/home/admin/.ssh/id_ed25519': "
	modes = append(modes, &dev.Mode{Name: "ask-pp", Prompt: ppPrompt, NoEcho: true, OnLine: func(_ *dev.CLIDevice, line string) dev.Reply {
		bad := line != passphrase
		if ppAttempts < s.rPP {
			ppAttempts++
			return dev.Reply{Raw: &ppPrompt, Wrong: bad}
		}
		return dev.Reply{Raw: &passPrompt, Next: "ask-pass", Wrong: bad}
	}})
	start := "ask-user"
	switch {
	case s.kind == "telnet-passonly":
		start = "ask-pass"
	case strings.HasPrefix(s.kind, "ssh") && s.rPP >= 0:
		start = "ask-pp"
	case strings.HasPrefix(s.kind, "ssh"):
		start = "ask-pass"
	}
	d := dev.NewCLI(start, modes...)
	pre := ""
	if strings.HasPrefix(s.kind, "telnet") {
		pre = "\nUser Access Verification\n\n"
	} else if s.banner > 0 {
		pre = "Warning: Permanently added 'dev' (ED25519) to the list of known hosts.\n"
	}
	if s.errLine >= 0 {
		if s.errWhere == 0 {
			pre = sshErrors[s.errLine] + "\n"
			d.NoFirst = true
		} else {
			pre += sshErrors[s.errLine] + "\n"
			d.NoFirst = true
			if s.errWhere == 2 {
				pre += strings.Repeat("debug1 client chatter after the failure 0123456789 0123456789\n", 20)
			}
		}
	}
	d.Banner = pre
	return d
}

// noCut: a read must not end inside a banner line at a point where the line so far looks like a
// login prompt (precondition of the property).
func noCutFor(tr **dev.FakeTransport) func(pending []byte, k int) bool {
	return func(pending []byte, k int) bool {
		t := *tr
		if k >= len(pending) {
			return false
		}
		rest := pending[k:]
		if i := strings.IndexByte(string(rest), '\n'); i >= 0 {
			rest = rest[:i]
		} else {
			// last line of what the device has emitted: a real prompt; only trailing blanks may follow
			if strings.TrimSpace(string(rest)) == "" {
				return false
			}
		}
		if strings.TrimSpace(string(rest)) == "" {
			return false
		}
		sofar := string(t.Stream) + string(pending[:k])
		line := sofar[strings.LastIndexByte(sofar, '\n')+1:]
		return userRe.MatchString(line) || passRe.MatchString(line) || ppRe.MatchString(line) || prRe.MatchString(line)
	}
}

func scenario(s dlg) sched.Scenario {
	return sched.Scenario{Name: s.name(), Run: func(w *sched.W) { runDlg(w, s, -1) }}
}

// hangScenario: the peer hangs up (end of stream) after byte k of the login stream, for every k up to the
// point where the unperturbed Open returns: Open fails promptly and the transport is closed.
func hangScenario(s dlg) sched.Scenario {
	return sched.Scenario{Name: "hangup/" + s.name(), Run: func(w *sched.W) {
		if r := w.Replaying(); r != nil {
			var k int
			fmt.Sscanf(r.Case, "hang=%d", &k)
			runDlg(w, s, k)
			return
		}
		L := runDlg(w, s, -1)
		for k := 0; k < L; k++ {
			if w.Expired() {
				return
			}
			w.SetCase(fmt.Sprintf("hang=%d", k))
			w.Extra("hangup_points", 1)
			runDlg(w, s, k)
		}
	}}
}

func runDlg(w *sched.W, s dlg, hangAt int) (sentAtOpenEnd int) {
	{
		cfg := cm.Cfg()
		cfg.NoPreAlt, cfg.NoIdleAlt = true, s.env == 0
		bounds := sched.Bounds{Env: s.env}
		cfg.Horizon = 5 * time.Second
		rd := cm.Ms
		if s.maxChunk > 0 {
			rd = 0
		}
		timeout := 40 * cm.Ms
		if s.trail {
			cfg.Horizon = 60 * time.Second
			timeout = 20 * time.Second // the slow logger of these scenarios stretches the login (virtual time)
		}
		w.Explore(cfg, bounds, func(e *sched.Env) {
			d := build(s)
			tr := dev.NewFake(e, d)
			tr.MaxChunk, tr.Cuts = s.maxChunk, s.env > 0
			tr.NoCut = noCutFor(&tr)
			if hangAt >= 0 {
				tr.Loss, tr.LossAt = dev.LossEOF, hangAt
			}
			var impl transport.Implementation
			if strings.HasPrefix(s.kind, "telnet") {
				impl = dev.FakeTelnet{FakeTransport: tr}
			} else {
				impl = dev.FakeSSH{FakeTransport: tr, Args: &transport.SSHArgs{PrivateKeyPassPhrase: passphrase}}
			}
			var openErr, setupErr, promptErr error
			var gotPrompt string
			var rest []byte
			var caps []string
			var t0, t1 time.Duration
			e.Go("client", func() {
				opts := append(cm.BaseOpts(impl, rd, timeout, 0), options.WithAuthUsername(cm.User), options.WithAuthPassword(cm.Pass))
				if s.trail {
					// a slow user logger (debug level): the login loop falls behind the read loop, so chunks are already
					// queued behind the one that completes the prompt
					li, _ := logging.NewInstance(logging.WithLevel("debug"), logging.WithLogger(func(...interface{}) { time.Sleep(cm.Ms / 4) }))
					opts = append(opts, options.WithLogger(li))
				}
				if s.kind == "ssh-nc" {
					nd, err := netconf.NewDriver("dev", opts...)
					if err != nil {
						setupErr = err
						return
					}
					t0 = e.Now()
					openErr = nd.Open()
					t1 = e.Now()
					if openErr == nil {
						caps = nd.ServerCapabilities()
					}
					return
				}
				g, err := generic.NewDriver("dev", opts...)
				if err != nil {
					setupErr = err
					return
				}
				t0 = e.Now()
				openErr = g.Open()
				t1 = e.Now()
				sentAtOpenEnd = tr.Sent()
				if openErr == nil && hangAt < 0 && s.trail {
					// everything read during login and everything that arrived since, in the order the device sent it
					time.Sleep(10 * cm.Ms)
					rest, promptErr = g.Channel.ReadAll()
				} else if openErr == nil && hangAt < 0 {
					gotPrompt, promptErr = g.GetPrompt()
				}
			})
			e.OnFinish(func() {
				if setupErr != nil || e.Verdict != "" {
					e.Violate("c10:session-failed", "%v %s %s", setupErr, e.Verdict, e.HangInfo)
					return
				}
				// reference: the abstract login machine
				wantOK, wantErr := true, ""
				switch {
				case s.errLine >= 0:
					wantOK, wantErr = false, "connection"
				case s.rPP > 1:
					wantOK, wantErr = false, "auth"
				case s.rLogin > 1:
					wantOK, wantErr = false, "auth"
				}
				e.Observe("open=%s prompt=%q rest=%q", cm.ErrClass(openErr), gotPrompt, rest)
				if hangAt >= 0 {
					// the stream ended inside the login dialogue
					if openErr == nil {
						return // the prompt was reached before the end of the stream was seen
					}
					if tr.CloseCalls == 0 {
						e.Violate("c10:transport-left-open", "peer hung up after %d bytes, Open failed (%v) but Implementation.Close was not called", hangAt, openErr)
					}
					if c := cm.ErrClass(openErr); c != "connection" && c != "auth" {
						e.Violate("c10:hangup-error-class", "peer hung up after %d bytes: %v", hangAt, openErr)
					}
					if t1-t0 > timeout {
						e.Violate("c10:slow-failure", "peer hung up after %d bytes, Open took %v", hangAt, t1-t0)
					}
					return
				}
				// credentials only in answer to their own prompt, each at most twice
				count := map[string]int{}
				for _, l := range d.Lines {
					switch l.Line {
					case cm.User:
						count["user"]++
						if l.Mode != "ask-user" {
							e.Violate("c10:username-sent-to-wrong-prompt", "user name received in state %s", l.Mode)
						}
					case cm.Pass:
						count["pass"]++
						if l.Mode != "ask-pass" {
							e.Violate("c10:password-sent-to-wrong-prompt", "password received in state %s", l.Mode)
						}
					case passphrase:
						count["pp"]++
						if l.Mode != "ask-pp" {
							e.Violate("c10:passphrase-sent-to-wrong-prompt", "passphrase received in state %s", l.Mode)
						}
					default:
						if l.Line != "" && (l.Mode == "ask-user" || l.Mode == "ask-pass" || l.Mode == "ask-pp") {
							e.Violate("c10:wrong-credential", "state %s received %q", l.Mode, l.Line)
						}
					}
				}
				for k, n := range count {
					if n > 2 {
						e.Violate("c10:credential-sent-more-than-twice", "%s sent %d times", k, n)
					}
				}
				if wantOK {
					if openErr != nil {
						e.Violate("c10:login-should-succeed", "device admits after %d/%d rejections but Open failed: %v", s.rLogin, s.rPP, openErr)
						return
					}
					if s.kind == "ssh-nc" {
						if len(caps) != 1 || caps[0] != dev.Cap10 {
							e.Violate("c10:login-bytes-lost", "server hello read during login was not available to the capability exchange: caps=%v", caps)
						}
					} else if s.trail {
						stream := strings.ReplaceAll(string(tr.AllOut), "\r", "")
						if promptErr != nil || len(rest) == 0 || !strings.HasSuffix(stream, string(rest)) || !strings.Contains(string(rest), shell+trailText) {
							e.Violate("c10:login-bytes-out-of-order", "after Open the channel holds %q (err %v): not the tail of what the device sent (%q)", rest, promptErr, stream)
						} else if i := strings.LastIndex(stream, welcome0(s)); i >= 0 && !strings.HasSuffix(string(rest), stream[i:]) {
							e.Violate("c10:login-bytes-lost", "after Open the channel holds %d bytes; the device printed %d bytes after the last credential (%q ...)", len(rest), len(stream)-i, stream[i:i+40])
						}
					} else if promptErr != nil || strings.TrimSpace(gotPrompt) != shell {
						e.Violate("c10:first-getprompt", "GetPrompt after login: %q, %v", gotPrompt, promptErr)
					}
					return
				}
				if openErr == nil {
					e.Violate("c10:login-should-fail", "want %s error, Open succeeded", wantErr)
					return
				}
				if cm.ErrClass(openErr) != wantErr {
					e.Violate("c10:wrong-error-class:"+wantErr, "want %s error, got %v", wantErr, openErr)
				}
				if tr.CloseCalls == 0 {
					e.Violate("c10:transport-left-open", "Open failed (%v) but Implementation.Close was not called", openErr)
				}
				if t1-t0 > timeout+10*cm.Ms+1100*cm.Ms {
					e.Violate("c10:slow-failure", "Open took %v", t1-t0)
				}
			})
		})
	}
	return sentAtOpenEnd
}

func scenarios(tier string) []sched.Scenario {
	var out []sched.Scenario
	presets := []int{0, 1, 7}
	envOf := func(mc int) int {
		if mc == 0 {
			if tier == "thorough" {
				return 2
			}
			return 1
		}
		return 0
	}
	for _, kind := range []string{"telnet", "telnet-passonly"} {
		for b := range banners[:3] {
			for u := range userSpellings {
				if kind == "telnet-passonly" && u > 0 {
					continue
				}
				for p := range passSpellings {
					for r := 0; r <= 3; r++ {
						for _, mc := range presets {
							out = append(out, scenario(dlg{kind, b, u, p, r, -1, -1, 0, mc, envOf(mc), false}))
						}
					}
				}
			}
		}
	}
	// devices that re-ask for the password after every other refusal before going back to the user name
	for _, kind := range []string{"telnet-repass-even", "telnet-repass-odd"} {
		for u := range userSpellings {
			for p := range passSpellings {
				for r := 0; r <= 3; r++ {
					for _, mc := range presets {
						out = append(out, scenario(dlg{kind, 0, u, p, r, -1, -1, 0, mc, envOf(mc), false}))
					}
				}
			}
		}
	}
	for _, kind := range []string{"ssh", "ssh-nc"} {
		for b := range banners[:3] {
			for _, p := range []int{0, 2} {
				for r := 0; r <= 3; r++ {
					for pp := -1; pp <= 3; pp++ {
						if kind == "ssh-nc" && (b == 1 || r > 2 || pp > 2) {
							continue
						}
						for _, mc := range presets {
							out = append(out, scenario(dlg{kind, b, 0, p, r, pp, -1, 0, mc, envOf(mc), false}))
						}
					}
				}
			}
		}
	}
	for ei := range sshErrors {
		for _, where := range []int{0, 1, 2} {
			for _, mc := range presets {
				out = append(out, scenario(dlg{"ssh", 1, 0, 2, 0, -1, ei, where, mc, envOf(mc), false}))
			}
		}
	}
	// the device keeps printing after it admitted us: the channel hands everything over in order
	for _, mc := range presets {
		for _, k := range []dlg{{"telnet", 1, 0, 0, 0, -1, -1, 0, mc, envOf(mc), true}, {"telnet", 0, 1, 1, 1, -1, -1, 0, mc, envOf(mc), true},
			{"telnet-passonly", 0, 0, 0, 0, -1, -1, 0, mc, envOf(mc), true}, {"ssh", 2, 0, 2, 1, 1, -1, 0, mc, envOf(mc), true}, {"ssh", 0, 0, 0, 0, -1, -1, 0, mc, envOf(mc), true},
			{"telnet", 3, 0, 0, 0, -1, -1, 0, mc, 0, true}, {"ssh", 3, 0, 2, 0, -1, -1, 0, mc, 0, true}} {
			out = append(out, scenario(k))
		}
	}
	// the peer hangs up at every point of the dialogue
	for _, mc := range []int{0, 7} {
		out = append(out,
			hangScenario(dlg{"telnet", 1, 0, 0, 1, -1, -1, 0, mc, 0, false}),
			hangScenario(dlg{"telnet", 0, 1, 1, 3, -1, -1, 0, mc, 0, false}),
			hangScenario(dlg{"telnet-passonly", 0, 0, 0, 0, -1, -1, 0, mc, 0, false}),
			hangScenario(dlg{"ssh", 2, 0, 2, 1, 1, -1, 0, mc, 0, false}),
			hangScenario(dlg{"ssh-nc", 0, 0, 2, 0, -1, -1, 0, mc, 0, false}),
			hangScenario(dlg{"ssh", 1, 0, 2, 0, -1, 3, 1, mc, 0, false}),
			hangScenario(dlg{"ssh", 1, 0, 2, 0, -1, 10, 0, mc, 0, false}),
		)
	}
	return out
}

func TestCheck(t *testing.T) {
	sched.Main(t, sched.Check{
		ID:          "C10",
		Level:       "model_checking",
		Rule:        "all paths of a login state machine: telnet {user+password, password only} x 3 banners x 3 user-prompt spellings x 3 password-prompt spellings x 0..3 rejected attempts (refusals lead back to the user-name prompt, or alternately to a new password prompt); ssh {shell, NETCONF hello after login} x banners x 2 password spellings x 0..3 rejected passwords x {no passphrase, 0..3 rejected passphrases}; 11 ssh client error lines at 2 positions; x read presets {whole, 1, 7 bytes} with every placement of up to 1 (2 thorough) extra cuts/holds that does not leave a banner line looking like a prompt; oracle = the same machine run abstractly (success iff each credential asked at most twice; error classes), device-side (state, line) log, transport closed on failure, first GetPrompt / capability exchange after login",
		Assumptions: []string{"rejections re-prompt without printing an ssh failure message", "the peer hanging up is explored at every byte offset of 7 dialogues (whole-message and 7-byte reads)", "silence during login is C05's case (stall-point enumeration over telnet.Open / ssh.Open)"},
		Scenarios:   scenarios,
		Budget:      map[string]time.Duration{"quick": 5 * time.Minute, "thorough": 40 * time.Minute},
	})
}

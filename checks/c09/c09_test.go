// C09 — NETCONF session establishment negotiates the right version or fails cleanly.
package c09

import (
	"encoding/xml"
	"fmt"
	"strconv"
	"strings"
	"testing"
	"time"

	"github.com/scrapli/scrapligo/driver/netconf"
	"github.com/scrapli/scrapligo/driver/options"

	"verif/checks/cm"
	"verif/dev"
	"verif/sched"
)

type scn struct {
	adv      int    // bit 0: base:1.0, bit 1: base:1.1
	pref     string // "", "1.0", "1.1"
	layout   string
	extra    string // none | many | amp
	sid      string // "", "1", "4294967295"
	echo     bool
	maxChunk int
	env      int
	selfcl   bool // the user asked for self-closing tags in requests (rewrites each request before it is framed)
}

func (s scn) name() string {
	n := fmt.Sprintf("adv=%d/pref=%s/layout=%s/extra=%s/sid=%s/echo=%v/chunk=%d/env=%d", s.adv, s.pref, s.layout, s.extra, s.sid, s.echo, s.maxChunk, s.env)
	if s.selfcl {
		n += "/self-closing"
	}
	return n
}

var manyCaps = []string{
	"urn:ietf:params:netconf:capability:writable-running:1.0",
	"urn:ietf:params:netconf:capability:candidate:1.0",
	"urn:ietf:params:netconf:capability:confirmed-commit:1.1",
	"urn:ietf:params:netconf:capability:rollback-on-error:1.0",
	"urn:ietf:params:netconf:capability:validate:1.1",
	"urn:ietf:params:netconf:capability:startup:1.0",
	"urn:ietf:params:netconf:capability:xpath:1.0",
	"urn:ietf:params:netconf:capability:notification:1.0",
	"urn:ietf:params:netconf:capability:interleave:1.0",
	"urn:ietf:params:netconf:capability:with-defaults:1.0?basic-mode=explicit",
	"urn:ietf:params:xml:ns:yang:ietf-netconf-monitoring?module=ietf-netconf-monitoring",
	"urn:ietf:params:xml:ns:yang:ietf-interfaces?module=ietf-interfaces",
	"http://example.com/yang/vendor-system?module=vendor-system",
	"urn:ietf:params:xml:ns:yang:ietf-yang-types?module=ietf-yang-types",
	"urn:ietf:params:xml:ns:netconf:base:1.0?module=ietf-netconf",
}

// capsOf returns the capability URIs (unescaped text) the server advertises, in order.
func capsOf(s scn) []string {
	var caps []string
	if s.adv&1 != 0 {
		caps = append(caps, dev.Cap10)
	}
	switch s.extra {
	case "many":
		caps = append(caps, manyCaps...)
	case "amp":
		caps = append(caps, "urn:example:cap?module=x&revision=2020-01-01")
	}
	if s.adv&2 != 0 {
		caps = append(caps, dev.Cap11) // 1.1 last so that order matters
	}
	if s.extra == "rev" {
		// and the other order: 1.1 listed first
		for i, j := 0, len(caps)-1; i < j; i, j = i+1, j-1 {
			caps[i], caps[j] = caps[j], caps[i]
		}
	}
	return caps
}

func xmlEsc(s string) string {
	var sb strings.Builder
	_ = xml.EscapeText(&sb, []byte(s))
	return sb.String()
}

// helloOf renders the server hello in the given layout.
func helloOf(s scn) (banner, hello string) {
	caps := capsOf(s)
	p := ""
	xmlns := `xmlns="` + dev.NSBase + `"`
	if s.layout == "prefixed" {
		p = "nc:"
		xmlns = `xmlns:nc="` + dev.NSBase + `"`
	}
	nl, ind, pad := "", "", ""
	switch s.layout {
	case "pretty", "decl", "banner", "trailnl":
		nl, ind = "\n", "  "
	case "padded":
		nl, ind, pad = "\n", "  ", "\n      "
	}
	var sb strings.Builder
	if s.layout == "decl" {
		sb.WriteString(`<?xml version="1.0" encoding="UTF-8"?>` + "\n")
	}
	sb.WriteString("<" + p + "hello " + xmlns + ">" + nl)
	if s.layout != "nocaps" {
		sb.WriteString(ind + "<" + p + "capabilities>" + nl)
		for _, c := range caps {
			sb.WriteString(ind + ind + "<" + p + "capability>" + pad + xmlEsc(c) + pad + "</" + p + "capability>" + nl)
		}
		sb.WriteString(ind + "</" + p + "capabilities>" + nl)
	}
	if s.sid != "" {
		sb.WriteString(ind + "<" + p + "session-id>" + s.sid + "</" + p + "session-id>" + nl)
	}
	sb.WriteString("</" + p + "hello>")
	if s.layout == "banner" {
		banner = "Welcome to the NETCONF subsystem\nUnauthorized access prohibited\n"
	}
	return banner, sb.String()
}

type helloX struct {
	XMLName xml.Name `xml:"hello"`
	Caps    []string `xml:"capabilities>capability"`
}

func expected(s scn) (version string, ok bool) {
	has10, has11 := s.adv&1 != 0, s.adv&2 != 0
	if s.layout == "nocaps" {
		return "", false
	}
	switch s.pref {
	case "1.0":
		return "1.0", has10
	case "1.1":
		return "1.1", has11
	}
	if has11 {
		return "1.1", true
	}
	if has10 {
		return "1.0", true
	}
	return "", false
}

func scenario(s scn) sched.Scenario {
	return sched.Scenario{Name: s.name(), Run: func(w *sched.W) {
		rd := cm.Ms
		if s.maxChunk > 0 {
			rd = 0
		}
		cfg := cm.Cfg()
		cfg.NoPreAlt = true
		cfg.NoIdleAlt = s.env == 0
		cfg.Horizon = 2 * time.Second
		timeout := 50 * cm.Ms
		w.Explore(cfg, sched.Bounds{Env: s.env}, func(e *sched.Env) {
			banner, hello := helloOf(s)
			srv := &dev.NCServer{Hello: hello, Banner: banner, Echo: s.echo}
			if s.layout == "trailnl" || s.layout == "compactnl" {
				srv.HelloTrail = "\n" // a line feed after the delimiter, as servers that print the hello with println do
			}
			if s.layout == "nothello" {
				srv.Hello = `<rpc-reply xmlns="` + dev.NSBase + `"><ok/></rpc-reply>`
			}
			tr := dev.NewFake(e, srv)
			srv.Out = tr.Inject
			tr.MaxChunk = s.maxChunk
			tr.Cuts = s.env > 0
			tr.NextEnd = srv.NextEnd
			var openErr, getErr error
			var selected string
			var caps []string
			var sid uint64
			var getRes, getIn string
			opened := false
			e.Go("client", func() {
				opts := cm.BaseOpts(tr, rd, timeout, 0)
				if s.pref != "" {
					opts = append(opts, options.WithNetconfPreferredVersion(s.pref))
				}
				if s.selfcl {
					opts = append(opts, options.WithNetconfForceSelfClosingTags())
				}
				d, err := netconf.NewDriver("dev", opts...)
				if err != nil {
					openErr = err
					return
				}
				openErr = d.Open()
				if openErr != nil {
					return
				}
				opened = true
				selected, caps, sid = d.SelectedVersion, d.ServerCapabilities(), d.SessionID()
				r, err := d.Get("")
				getErr = err
				if r != nil {
					getRes, getIn = r.Result, string(r.Input)
				}
			})
			e.OnFinish(func() {
				if e.Verdict != "" {
					e.Violate("c09:"+e.Verdict, "open/get did not finish: %s", e.HangInfo)
					return
				}
				wantV, wantOK := expected(s)
				if s.layout == "nothello" {
					wantOK = false
				}
				e.Observe("open=%s sel=%s caps=%d sid=%d get=%s", cm.ErrClass(openErr), selected, len(caps), sid, cm.ErrClass(getErr))
				if !wantOK {
					if openErr == nil {
						e.Violate("c09:open-should-fail", "adv=%d pref=%q layout=%s: Open succeeded with version %s", s.adv, s.pref, s.layout, selected)
						return
					}
					if cm.ErrClass(openErr) != "netconf" {
						e.Violate("c09:wrong-error-class", "want ErrNetconfError, got %v", openErr)
					}
					if tr.CloseCalls == 0 {
						e.Violate("c09:transport-left-open", "Open failed (%v) but Implementation.Close was not called", openErr)
					}
					return
				}
				if openErr != nil || !opened {
					sig := "c09:open-failed"
					if s.layout == "padded" || s.layout == "prefixed" {
						sig += ":layout=" + s.layout
					}
					e.Violate(sig, "adv=%d pref=%q layout=%s: Open failed: %v", s.adv, s.pref, s.layout, openErr)
					return
				}
				if selected != wantV {
					e.Violate("c09:wrong-version", "adv=%d pref=%q: selected %s want %s", s.adv, s.pref, selected, wantV)
				}
				wantCaps := capsOf(s)
				gotCaps := make([]string, len(caps))
				for i, c := range caps {
					gotCaps[i] = strings.TrimSpace(c)
				}
				if strings.Join(gotCaps, "\n") != strings.Join(wantCaps, "\n") && strings.Join(gotCaps, "\n") != strings.Join(escAll(wantCaps), "\n") {
					e.Violate("c09:capabilities-differ:layout="+s.layout, "ServerCapabilities()=%q want %q", caps, wantCaps)
				}
				wantSid, _ := strconv.ParseUint(s.sid, 10, 64)
				if sid != wantSid {
					e.Violate("c09:session-id:layout="+s.layout, "SessionID()=%d want %d", sid, wantSid)
				}
				// the client's hello: one message, end-of-message framing, exactly base:<selected>
				var hx helloX
				if err := xml.Unmarshal([]byte(srv.ClientHello), &hx); err != nil {
					e.Violate("c09:client-hello-malformed", "%v: %q", err, srv.ClientHello)
				} else {
					if hx.XMLName.Space != dev.NSBase {
						e.Violate("c09:client-hello-namespace", "namespace %q", hx.XMLName.Space)
					}
					want := "urn:ietf:params:netconf:base:" + wantV
					if len(hx.Caps) != 1 || strings.TrimSpace(hx.Caps[0]) != want {
						e.Violate("c09:client-hello-caps", "client advertised %q want exactly [%s]", hx.Caps, want)
					}
				}
				// everything after the client hello is in the selected framing and is exactly the Get
				rcv := srv.Received
				i := strings.Index(string(rcv), dev.Delim10)
				if i < 0 {
					e.Violate("c09:no-client-hello", "server never received a complete hello: %q", rcv)
					return
				}
				msgs, err := dev.StrictStream(wantV, rcv[i+len(dev.Delim10):])
				if err != nil {
					e.Violate("c09:later-traffic-framing", "after the hello, in %s framing: %v", wantV, err)
				} else if len(msgs) != 1 || string(msgs[0]) != getIn {
					e.Violate("c09:later-traffic-content", "decoded %d messages %q, Get reports Input %q", len(msgs), msgs, getIn)
				}
				if getErr != nil {
					e.Violate("c09:get-failed", "Get after Open failed: %v", getErr)
				} else if !strings.Contains(getRes, "<ok/>") || !strings.HasPrefix(getRes, "<rpc-reply") || !strings.HasSuffix(getRes, "</rpc-reply>") {
					e.Violate("c09:get-reply-not-decoded", "Get result %q", getRes)
				}
			})
		})
	}}
}

func escAll(in []string) []string {
	out := make([]string, len(in))
	for i, s := range in {
		out[i] = xmlEsc(s)
	}
	return out
}

func scenarios(tier string) []sched.Scenario {
	var out []sched.Scenario
	layouts := []string{"compact", "pretty", "padded", "prefixed", "decl", "banner", "trailnl", "compactnl"}
	for adv := 0; adv < 4; adv++ {
		for _, pref := range []string{"", "1.0", "1.1"} {
			for _, lay := range layouts {
				for _, extra := range []string{"none", "many", "amp", "rev"} {
					for _, sid := range []string{"", "1", "4294967295"} {
						for _, echo := range []bool{false, true} {
							for _, mc := range []int{0, 1, 7} {
								if tier != "thorough" && mc != 0 && (extra == "many" || sid == "1") {
									continue
								}
								env := 0
								if mc == 0 && extra != "many" && (tier == "thorough" || (sid != "1" && !echo)) {
									env = 1
								}
								out = append(out, scenario(scn{adv, pref, lay, extra, sid, echo, mc, env, false}))
							}
						}
					}
				}
			}
		}
	}
	// requests rewritten to self-closing tags: still framed as negotiated
	for adv := 1; adv < 4; adv++ {
		for _, pref := range []string{"", "1.0", "1.1"} {
			for _, echo := range []bool{false, true} {
				for _, mc := range []int{0, 1} {
					out = append(out, scenario(scn{adv, pref, "compact", "none", "1", echo, mc, 1 - mc, true}))
				}
			}
		}
	}
	// a delimiter-terminated first message that is not a hello; a hello without capabilities
	for _, lay := range []string{"nothello", "nocaps"} {
		for _, pref := range []string{"", "1.0", "1.1"} {
			for _, echo := range []bool{false, true} {
				out = append(out, scenario(scn{3, pref, lay, "none", "5", echo, 0, 1, false}))
			}
		}
	}
	return out
}

func TestCheck(t *testing.T) {
	sched.Main(t, sched.Check{
		ID:          "C09",
		Level:       "exploration",
		Rule:        "exhaustive product: advertised subset of {base:1.0, base:1.1} x preferred {none,1.0,1.1} x hello layout {compact, pretty, padded capability text, nc: prefix, XML declaration, banner first, line feed after the delimiter} x extra capabilities {none, 15, one with &amp;, none with base:1.1 listed first} x session-id {absent, 1, 4294967295} x echo x read preset {whole, 1, 7 bytes} (+ every single extra cut/hold on the whole-message preset), plus non-hello first message, hello without capabilities, and sessions whose requests are rewritten to self-closing tags; each cell = Open + Get on the real driver against the server model; distinct = distinct (cell, schedule, observation)",
		Assumptions: []string{"capability text compared after trimming whitespace; XML-escaped text accepted as equal to its unescaped form", "silence instead of a hello is C05's case"},
		Scenarios:   scenarios,
		Budget:      map[string]time.Duration{"quick": 5 * time.Minute, "thorough": 30 * time.Minute},
	})
}

#!/usr/bin/env python3
# Regenerates seeded/MATRIX.md from seeded/*/meta.json.
import json, glob, os
root = os.path.join(os.path.dirname(os.path.abspath(__file__)), '..', 'seeded')
metas = [json.load(open(f)) for f in sorted(glob.glob(os.path.join(root, '*', 'meta.json')))]
out = ["# Seeded changes: which check catches which change", "",
"Each change was written by a fresh sub-agent that saw only the property text (round 1: `<Cxx>-1/-2`; round 2, after the checks had been",
"strengthened on round 1: `<Cxx>-3/-4`; round 3, after round 2: `<Cxx>-5/-6`; round 4, up to three changes aimed at less travelled paths: `<Cxx>-7/-8/-9`; round 5, the same brief again after round 4: `<Cxx>-10/-11/-12`; round 6, twelve properties, up to two changes aimed at what earlier batches had not touched: `<Cxx>-13/-14`; round 7, the eight remaining properties, one change each under a 15-minute brief: `<Cxx>-13` of C01 C02 C07 C14 C15 C17 C18 C20; round 8, four properties, one change each under an 8-minute brief: `<Cxx>-15` of C04 C10 C12 C13); it compiles, passes the 303 baseline tests, and its demonstration fails with the change and passes",
"without. Checks were run (quick tier) against a scratch worktree with the change applied. 'first run' = verdict of the property's own check as",
"it stood when the change arrived; every miss led to a strengthening of the alphabet, fault model or engine, after which every change is",
"detected by its own property's check on every run (`tools/seedmatrix.sh` re-verifies all of it from the stored artefacts).", "",
"| change | what | needs | first run | detected by (now) | strengthening |", "|---|---|---|---|---|---|"]
stat = {1: [0, 0], 2: [0, 0], 3: [0, 0], 4: [0, 0], 5: [0, 0], 6: [0, 0], 7: [0, 0], 8: [0, 0]}
cell = lambda t: str(t).replace('|', '/').replace('\n', ' ')
for m in metas:
    r = m.get('round', 1)
    stat[r][0] += 1
    stat[r][1] += 1 if m['detected_before_strengthening'] else 0
    out.append("| %s | %s | %s | %s | %s | %s |" % (m['id'], cell(m['what']), cell(m['needs_to_manifest']), 'DETECTED' if m['detected_before_strengthening'] else 'MISSED',
        ', '.join(m['detected_by']) + (' (superseded by fix 64e02eb: harmless on the repaired tree)' if m.get('superseded') else ''), m['strengthening'] or '-'))
out += ["", "Round 1: %d changes, %d detected on the first run. Round 2: %d changes, %d detected on the first run. Round 3: %d changes, %d detected on the first run. Round 4: %d changes, %d detected on the first run. Round 5: %d changes, %d detected on the first run. Round 6: %d changes, %d detected on the first run. Round 7: %d changes, %d detected on the first run. Round 8: %d changes, %d detected on the first run. Missed now: 0 of %d (C09-2 and C09-9 apply to the tree before fix 64e02eb, which made them harmless; C16-8 is caught by C10, not by C16; C10-14 by C15 and C16, not by C10; C07-8 and C07-12 by the sampling race pass)." % (
    stat[1][0], stat[1][1], stat[2][0], stat[2][1], stat[3][0], stat[3][1], stat[4][0], stat[4][1], stat[5][0], stat[5][1], stat[6][0], stat[6][1], stat[7][0], stat[7][1], stat[8][0], stat[8][1], len(metas))]
open(os.path.join(root, 'MATRIX.md'), 'w').write('\n'.join(out) + '\n')
print(out[-1])

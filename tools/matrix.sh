#!/bin/bash
# usage: tools/matrix.sh [pattern] : for every kept patch (mutations/<ID>/*.diff, seeded/<ID>/<name>/patch.diff) whose path
# matches the pattern, applies it to a scratch worktree of /repo and runs the property's quick check against it (VERIF_REPO);
# prints one line per patch: DETECTED (exit 1 with a VIOLATION line) / MISSED / ENGINE-ERROR, with the signatures reported.
cd "$(dirname "$0")/.." || exit 2
pat="${1:-.}"
for p in mutations/*/*.diff seeded/*/*/patch.diff; do
  [ -e "$p" ] || continue
  echo "$p" | grep -q "$pat" || continue
  id=$(echo "$p" | cut -d/ -f2)
  checks=$id
  [ -e "$(dirname $p)/checks" ] && checks=$(cat "$(dirname $p)/checks")
  wt=/tmp/mx_$$; git -C /repo worktree remove --force $wt 2>/dev/null; git -C /repo worktree add -q $wt HEAD || exit 3
  if ! git -C $wt apply "$PWD/$p" 2>/dev/null; then echo "$p: PATCH DOES NOT APPLY"; git -C /repo worktree remove --force $wt; continue; fi
  for c in $checks; do
    VERIF_REPO=$wt timeout 1500 ./run.sh $c quick > /tmp/mx_$$.log 2>&1; r=$?
    sigs=$(grep "^  sig=" /tmp/mx_$$.log | sed 's/  sig=//' | sort -u | head -4 | tr '\n' ' ')
    case $r in 1) v=DETECTED;; 0) v=MISSED;; *) v="ENGINE-ERROR($r)";; esac
    echo "$p | $c | $v | $sigs"
  done
  git -C /repo worktree remove --force $wt
done
rm -f /tmp/mx_$$.log

#!/usr/bin/env python3
# prints distinct data race signatures (top scrapligo frame of each side) from GORACE log files
import sys,re,glob,collections
sigs=collections.Counter(); ex={}
for f in sys.argv[1:]:
    txt=open(f,errors='replace').read()
    for blk in txt.split('WARNING: DATA RACE')[1:]:
        blk=blk.split('==================')[0]
        parts=re.split(r'\n\s*\n',blk.strip())
        tops=[]
        for p in parts[:2]:
            m=re.search(r'(github\.com/scrapli/scrapligo/\S+?)\(\)\n\s+(\S+?):(\d+)',p)
            if m: tops.append(m.group(1).replace('github.com/scrapli/scrapligo/','')+'@'+m.group(2).split('/repo/')[-1]+':'+m.group(3))
            else: tops.append('?')
        s=' x '.join(sorted(tops))
        sigs[s]+=1; ex.setdefault(s,blk[:1500])
for s,n in sigs.most_common(): print(n,s)

#!/usr/bin/env python3
# regenerates MANIFEST.json from tools/manifest_src.json (claims) + properties.jsonl (not_applicable for the rest)
import json,os,sys
root=os.path.dirname(os.path.dirname(os.path.abspath(__file__)))
src=json.load(open(os.path.join(root,'tools','manifest_src.json')))
props=[json.loads(l)['id'] for l in open(os.path.join(root,'properties.jsonl'))]
checks=[]
for pid in props:
    c=src['checks'].get(pid)
    if not c: continue
    checks.append({
      "property_id":pid,
      "quick_cmd":f"./run.sh {pid} quick",
      "thorough_cmd":f"./run.sh {pid} thorough",
      "evidence_file":f"/verif/evidence/{pid}.json",
      "replay_cmd_template":"./run.sh replay {path}",
      "engine":c["engine"],
      "level_claimed":{"category":c["level"],"text":c["text"],"design_ref":c.get("design_ref","DESIGN.md §6 "+pid)},
      "level_note":c["note"],
      "technique":c["technique"],
    })
na=[{"property_id":p,"reason":src.get("not_applicable",{}).get(p,"check not built yet in this session (see DESIGN.md build order); no claim is made")} for p in props if p not in src['checks']]
m={"version":1,"setup_cmd":"./setup.sh","hooks":src["hooks"],"engines":src["engines"],"checks":checks,"notes":src["notes"],"not_applicable":na}
json.dump(m,open(os.path.join(root,'MANIFEST.json'),'w'),indent=1)
print("claimed",len(checks),"not_applicable",len(na))

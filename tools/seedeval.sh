#!/bin/bash
# usage: tools/seedeval.sh <ID> <N> <demo-dest-relative-path> "<demo command run in worktree>" [check ids...]
# Confirms a seeded change (compiles, baseline passes, demo passes without / fails with) in a scratch
# worktree of /repo, then runs the named checks (default: the property's own) against it via VERIF_REPO.
ID=$1; N=$2; DEST=$3; CMD=$4; shift 4; CHECKS="$*"; [ -z "$CHECKS" ] && CHECKS=$ID
SRC=${SEEDROOT:-/tmp/seed_}$ID/_seed
WT=/tmp/ev_${ID}_$N$SKIP_CONFIRM
export GOFLAGS=-mod=mod GOPROXY=off GOSUMDB=off
git -C /repo worktree remove --force $WT 2>/dev/null
git -C /repo worktree add -q $WT HEAD || exit 3
mkdir -p $WT/$(dirname $DEST); cp $SRC/demo${N}_test.go $WT/$DEST
for extra in $SRC/demo${N}_extra/*; do [ -e "$extra" ] && cp -r "$extra" $WT/$(dirname $DEST)/; done
if [ -z "$SKIP_CONFIRM" ]; then
echo "== demo WITHOUT change"; (cd $WT && timeout 300 bash -c "$CMD") >/tmp/ev_${ID}_${N}_before.log 2>&1; b=$?; tail -3 /tmp/ev_${ID}_${N}_before.log; echo "exit=$b"
fi
git -C $WT apply $SRC/change$N.diff || { echo "PATCH DOES NOT APPLY"; git -C /repo worktree remove --force $WT; exit 3; }
if [ -z "$SKIP_CONFIRM" ]; then
echo "== build + baseline WITH change"; (cd $WT && go build ./... && mv $DEST /tmp/ev_demo_hold_${ID}_$N.go && flock /tmp/suite.lock go test -vet=off -count=1 ./... 2>&1 | grep -v "no test files" | tail -12; mv /tmp/ev_demo_hold_${ID}_$N.go $DEST)
echo "== demo WITH change"; (cd $WT && timeout 300 bash -c "$CMD") >/tmp/ev_${ID}_${N}_after.log 2>&1; a=$?; tail -5 /tmp/ev_${ID}_${N}_after.log; echo "exit=$a"
fi
rm -f $WT/$DEST
for c in $CHECKS; do
  echo "== check $c quick against the change"
  (cd /verif && VERIF_REPO=$WT timeout 1200 ./run.sh $c quick) > /tmp/ev_${ID}_${N}_$c.log 2>&1; r=$?
  grep "^VIOLATION\|^  sig=\|^SUMMARY\|^ENGINE-ERROR\|^KNOWN" /tmp/ev_${ID}_${N}_$c.log | cut -c1-230 | head -14; echo "check $c exit=$r"
done
git -C /repo worktree remove --force $WT

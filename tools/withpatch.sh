#!/bin/bash
# usage: withpatch.sh <patch.diff> <command...> : apply the patch to /repo, run the command, always revert.
p="$(realpath "$1")"; shift
git -C /repo diff --quiet || { echo "withpatch: /repo has uncommitted changes" >&2; exit 3; }
git -C /repo apply "$p" || { echo "withpatch: patch does not apply" >&2; exit 3; }
"$@"; rc=$?
git -C /repo apply -R "$p" || git -C /repo checkout -- .
exit $rc

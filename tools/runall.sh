#!/bin/bash
# usage: tools/runall.sh <quick|thorough> [ids...] : runs the checks on the unchanged tree, regenerating every evidence file
cd "$(dirname "$0")/.." || exit 2
tier="${1:-quick}"; shift
ids="$*"; [ -z "$ids" ] && ids="C01 C02 C03 C04 C05 C06 C07 C08 C09 C10 C11 C12 C13 C14 C15 C16 C17 C18 C19 C20"
rc=0
for id in $ids; do
  out=$(./run.sh "$id" "$tier" 2>&1); r=$?
  echo "$out" | grep "^SUMMARY\|^VIOLATION\|^KNOWN-FINDING\|^ENGINE-ERROR" | cut -c1-220
  [ $r -ne 0 ] && { echo "== $id exit $r"; rc=1; }
done
exit $rc

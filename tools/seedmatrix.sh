#!/bin/bash
# usage: tools/seedmatrix.sh [pattern]
# Re-verifies every stored seeded change from its own artefacts (seeded/<id>/{patch.diff,demo_test.go.txt,meta.json}):
# scratch worktree of /repo under /tmp -> demonstration passes -> apply patch -> build -> whole baseline suite passes ->
# demonstration fails -> quick tier of each check named in detected_by reports a violation. Prints one line per change.
cd "$(dirname "$0")/.."
export GOFLAGS=-mod=mod GOPROXY=off GOSUMDB=off
for d in seeded/${1:-*}/; do
  [ -f $d/meta.json ] || continue
  id=$(basename $d)
  if [ "$(jq -r '.superseded // false' $d/meta.json)" = "true" ]; then echo "$id SUPERSEDED (see meta.json: a later fix in /repo made this change harmless)"; continue; fi
  dest=$(jq -r .confirmed.demonstration_dest $d/meta.json); cmd=$(jq -r .confirmed.demonstration_command $d/meta.json)
  checks=$(jq -r '.detected_by|join(" ")' $d/meta.json)
  WT=/tmp/sm_$id; git -C /repo worktree remove --force $WT 2>/dev/null; git -C /repo worktree add -q $WT HEAD || { echo "$id WORKTREE-FAILED"; continue; }
  mkdir -p $WT/$(dirname $dest); cp $d/demo_test.go.txt $WT/$dest
  [ -d $d/demo_extra ] && cp -r $d/demo_extra/* $WT/$(dirname $dest)/
  (cd $WT && timeout 600 bash -c "$cmd") >/tmp/sm_$id.before 2>&1; before=$?
  git -C $WT apply $PWD/$d/patch.diff || { echo "$id PATCH-DOES-NOT-APPLY"; git -C /repo worktree remove --force $WT; continue; }
  (cd $WT && timeout 600 bash -c "$cmd") >/tmp/sm_$id.after 2>&1; after=$?
  rm -rf $WT/$dest; [ -d $d/demo_extra ] && for x in $d/demo_extra/*; do rm -rf $WT/$(dirname $dest)/$(basename $x); done
  (cd $WT && go build ./... && flock /tmp/suite.lock go test -vet=off -count=1 ./... 2>&1) >/tmp/sm_$id.base 2>&1 # the suite binds a fixed port: one at a time
  okc=$(grep -c "^ok" /tmp/sm_$id.base); failc=$(grep -c "^FAIL\|^--- FAIL\|panic:" /tmp/sm_$id.base)
  note=""
  # some baseline tests are timing-sensitive on a loaded machine also on the unchanged tree (TestSystemTransportDontBlockOnClose
  # hangs until the 10-minute deadline, TestOpen/server-capabilities-truncated times out): packages that failed are run once
  # more, one at a time; a change that really breaks a test fails again
  if [ $failc -gt 0 ]; then
    pk=$(grep "^FAIL[[:space:]]*github.com" /tmp/sm_$id.base | awk '{print $2}' | sed 's#github.com/scrapli/scrapligo#.#' | sort -u)
    if [ -n "$pk" ]; then
      again=0
      for q in $pk; do
        (cd $WT && flock /tmp/suite.lock go test -vet=off -count=1 $q/ 2>&1) >/tmp/sm_$id.base2 2>&1
        grep -q "^ok" /tmp/sm_$id.base2 && ! grep -q "^FAIL\|^--- FAIL\|panic:" /tmp/sm_$id.base2 || again=1
      done
      if [ $again -eq 0 ]; then okc=$((okc + $(echo $pk | wc -w))); failc=0; note=" (failed under load, passed when re-run alone: $(echo $pk))"; fi
    fi
  fi
  res=""
  for c in $checks; do
    (VERIF_REPO=$WT timeout 2400 ./run.sh $c quick) >/tmp/sm_${id}_$c.log 2>&1; r=$?
    nv=$(grep -c "^VIOLATION property=$c " /tmp/sm_${id}_$c.log)
    res="$res $c:exit=$r,violations=$nv"
  done
  git -C /repo worktree remove --force $WT
  verdict=CONFIRMED; [ $before -eq 0 ] && [ $after -ne 0 ] && [ $failc -eq 0 ] && [ $okc -ge 11 ] || verdict=NOT-CONFIRMED
  echo "$id $verdict demo_without=$before demo_with=$after baseline_ok_pkgs=$okc baseline_fail_lines=$failc$note checks:$res"
done

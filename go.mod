module verif

go 1.26.8

require (
	github.com/anishathalye/porcupine v1.3.0
	github.com/scrapli/scrapligo v0.0.0
	golang.org/x/crypto v0.26.0
	golang.org/x/sys v0.23.0
	gopkg.in/yaml.v3 v3.0.1
)

require (
	github.com/creack/pty v1.1.23 // indirect
	github.com/sirikothe/gotextfsm v1.0.1-0.20200816110946-6aa2cfd355e4 // indirect
)

replace github.com/scrapli/scrapligo => /repo

package sched

import (
	"strings"
	"testing"
)

// Bounds limits the deviations of an exploration.
type Bounds struct {
	Pre      int    // max thread-switch deviations
	Env      int    // max environment deviations
	Total    int    // max deviations of both kinds together (0 = Pre+Env)
	MaxExecs int    // cap on executions (0 = none); hitting it makes the run non-exhaustive
	Window   [2]int // only decisions with index in [lo,hi) may deviate; hi==0 means no window
}

// Stats summarises one exploration.
type Stats struct {
	Execs       int
	States      int // choice-tree nodes visited (decisions first seen)
	Transitions int // decisions executed in total
	MaxDepth    int
	Capped      bool
	Skipped     int // executions skipped (known crashers)
	Diverged    int // prefixes that did not replay to the same menus even when retried (subtree not explored)
}

type item struct {
	prefix []int
	fps    []uint32
	pre    int
	env    int
}

// Explore enumerates every choice sequence within the bounds. before is called with the choice
// prefix before each execution (crash attribution); after is called with the finished execution
// and returns false to stop the exploration early.
func Explore(
	t *testing.T, cfg Config, b Bounds, body func(*Env),
	before func(prefix []int) bool, after func(e *Env) bool,
) Stats {
	var st Stats
	total := b.Total
	if total == 0 {
		total = b.Pre + b.Env
	}
	stack := []item{{}}
	for len(stack) > 0 {
		it := stack[len(stack)-1]
		stack = stack[:len(stack)-1]
		if b.MaxExecs > 0 && st.Execs >= b.MaxExecs {
			st.Capped = true
			break
		}
		if before != nil && !before(it.prefix) {
			st.Skipped++
			continue
		}
		e := Exec(t, cfg, it.prefix, it.fps, body)
		for retry := 0; retry < 2 && e.Verdict == "engine" && strings.HasPrefix(e.EngineErr, "replay divergence"); retry++ {
			e = Exec(t, cfg, it.prefix, it.fps, body)
		}
		if e.Verdict == "engine" && strings.HasPrefix(e.EngineErr, "replay divergence") {
			// residual nondeterminism below the hook granularity (Go runtime order of same-instant
			// wake-ups): the subtree below this prefix is not explored and the run is not exhaustive
			st.Diverged++
			continue
		}
		st.Execs++
		st.Transitions += len(e.Points)
		if len(e.Points) > len(it.prefix) {
			st.States += len(e.Points) - len(it.prefix)
		}
		if len(e.Points) > st.MaxDepth {
			st.MaxDepth = len(e.Points)
		}
		if after != nil && !after(e) {
			break
		}
		if e.Verdict == "engine" {
			continue
		}
		for i := len(e.Points) - 1; i >= len(it.prefix); i-- {
			if b.Window[1] != 0 && (i < b.Window[0] || i >= b.Window[1]) {
				continue
			}
			if i < e.WindowFrom {
				break
			}
			p := e.Points[i]
			for alt := p.N - 1; alt >= 1; alt-- {
				pre, env := it.pre, it.env
				switch p.Costs[alt] {
				case CostPre:
					pre++
				case CostEnv:
					env++
				}
				if pre > b.Pre || env > b.Env || pre+env > total {
					continue
				}
				np := make([]int, i+1)
				copy(np, e.Choices[:i])
				np[i] = alt
				nf := make([]uint32, i+1)
				for k := 0; k <= i; k++ {
					nf[k] = e.Points[k].FP
				}
				stack = append(stack, item{prefix: np, fps: nf, pre: pre, env: env})
			}
		}
	}
	return st
}

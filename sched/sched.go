// Package sched is the stateless explorer: a cooperative scheduler for the hooked goroutines of
// scrapligo (build tag verif), an environment-action interface for fake transports, a virtual
// clock (testing/synctest bubble) and a deviation-bounded DFS over all choice sequences.
package sched

import (
	"fmt"
	"hash/fnv"
	"runtime"
	"sort"
	"strconv"
	"strings"
	"sync"
	"testing"
	"testing/synctest"
	"time"

	"github.com/scrapli/scrapligo/util/verifhook"
)

// Cost classes of a non-default alternative.
const (
	CostNone = 0
	CostPre  = 1 // switching to a thread other than the default one
	CostEnv  = 2 // a non-default environment answer (cut, hold, early clock advance)
)

type kind int

const (
	kPoint kind = iota
	kSpin
	kAcquire
)

// Thread is one goroutine that has reached a hook at least once.
type Thread struct {
	ID     int
	Name   string
	Key    string // stable identity: creator/entry-function#ordinal (independent of arrival order)
	goid   uint64
	client bool
	done   bool

	parked bool
	site   string
	kind   kind
	mu     interface{}
	grant  chan struct{}

	spinSeen map[string]uint64
	foreign  uint64   // events caused by anybody else (other threads, environment, clock)
	Sites    []string // trace of sites (only when Env.TraceSites)
}

// EnvAction is one thing the environment may do at a quiescent point.
type EnvAction struct {
	Label string
	// Default marks the action the canonical schedule takes (at most one per source should be
	// first in its list; the first action of the first source is the menu default when no thread
	// is enabled).
	Do func()
}

// EnvSource is evaluated at quiescence (nothing else runs) by the scheduler goroutine.
type EnvSource interface {
	Actions() []EnvAction
}

// Violation is one oracle failure of one execution.
type Violation struct {
	Sig    string `json:"sig"`
	Detail string `json:"detail"`
}

// PointRec records one decision.
type PointRec struct {
	N     int     // alternatives
	Costs []uint8 // cost class per alternative (index 0 is CostNone)
	FP    uint32  // fingerprint of the menu labels
	Menu  string  // labels (only kept when Env.KeepMenus)
}

// Config holds per-execution knobs set by the scenario.
type Config struct {
	Classes     []string      // enabled hook-name prefixes for Point (Spin/Acquire are always on)
	Tick        time.Duration // idle quantum of the scheduler (virtual)
	Horizon     time.Duration // virtual time after which unfinished clients mean "hang"
	Grace       time.Duration // virtual drain time after the clients are done
	NoIdleAlt   bool          // do not offer "idle" as an alternative when something is enabled
	IdleEnvOnly bool          // offer "idle" only where an environment action is on the menu (hold a delivery)
	NoPreAlt    bool          // do not offer thread-switch alternatives (threads run in default order)
	HoldPoints  bool          // offer "hold" (cost: one thread switch) where a thread waits at a Point: every thread stays parked for one tick of virtual time, so that a timer can win against a runnable thread
	KeepMenus   bool
	TraceSites  bool
	WantLeaks   bool // compute Leaked after the drain
	MaxSteps    int  // decisions per execution before the verdict "livelock" (default 20000)
}

// Env is the per-execution context.
type Env struct {
	Cfg Config

	mu        sync.Mutex
	threads   []*Thread
	byGoid    map[uint64]*Thread
	nameCount map[string]int
	wake      chan struct{}
	root      uint64
	events    uint64
	steps     int
	last      *Thread
	cur       *Thread
	poisoned  bool
	draining  bool
	start     time.Time
	sources   []EnvSource
	finish    []func()

	prefix   []int
	prefixFP []uint32
	Choices  []int
	Points   []PointRec

	Violations []Violation
	Obs        []string
	WindowFrom int    // decisions before this index are not varied by the explorer
	Verdict    string // "", "hang", "engine:..."
	Leaked     []string
	HangInfo   string
	EngineErr  string
	SiteSet    map[string]int
	T          *testing.T
}

var current *Env //nolint:gochecknoglobals

type handler struct{}

func (handler) Point(n string) {
	if e := current; e != nil {
		e.hook(n, kPoint, nil)
	}
}
func (handler) Spin(n string) {
	if e := current; e != nil {
		e.hook(n, kSpin, nil)
	}
}
func (handler) Acquire(n string, m interface{}) {
	if e := current; e != nil {
		e.hook(n, kAcquire, m)
	}
}

func init() { verifhook.Handler = handler{} } //nolint:gochecknoinits

func goid() uint64 {
	var buf [64]byte
	n := runtime.Stack(buf[:], false)
	// "goroutine 123 ["
	s := buf[10:n]
	var id uint64
	for _, c := range s {
		if c < '0' || c > '9' {
			break
		}
		id = id*10 + uint64(c-'0')
	}
	return id
}

func (e *Env) classOn(n string) bool {
	for _, c := range e.Cfg.Classes {
		if strings.HasPrefix(n, c) {
			return true
		}
	}
	return false
}

// nameOf derives a stable name for the calling goroutine from its entry function and its creator
// (must be called with e.mu held).
func (e *Env) nameOf() string {
	buf := make([]byte, 16384)
	n := runtime.Stack(buf, false)
	lines := strings.Split(strings.TrimRight(string(buf[:n]), "\n"), "\n")
	entry, parent := "?", "?"
	for i := len(lines) - 1; i >= 0; i-- {
		l := lines[i]
		if strings.HasPrefix(l, "created by ") {
			rest := strings.TrimPrefix(l, "created by ")
			if k := strings.Index(rest, " in goroutine "); k > 0 {
				pg, _ := strconv.ParseUint(strings.TrimSpace(rest[k+len(" in goroutine "):]), 10, 64)
				if pt := e.byGoid[pg]; pt != nil {
					parent = pt.Key
				} else if pg == e.root {
					parent = "root"
				}
			}
			// the entry function is the frame above "created by": two lines up (func line, file line)
			if i >= 2 {
				entry = lines[i-2]
				if k := strings.LastIndex(entry, "("); k > 0 {
					entry = entry[:k]
				}
			}
			break
		}
	}
	entry = strings.TrimPrefix(entry, "github.com/scrapli/scrapligo/")
	return parent + ">" + entry
}

// Point lets harness code (fake transports, client programs) yield like a library hook.
func (e *Env) Point(n string) { e.hook(n, kPoint, nil) }

func (e *Env) hook(n string, k kind, m interface{}) {
	// points whose name ends in "!" are always on: they sit right after a sleep and before a
	// read of shared state, so that two goroutines woken at the same virtual instant each run only
	// local code before parking (otherwise the Go runtime's order of same-instant timers decides)
	if k == kPoint && !strings.HasPrefix(n, "h.") && !strings.HasSuffix(n, "!") && !e.classOn(n) {
		return
	}
	if k == kAcquire && !e.classOn(n) && tryFree(n, m) {
		// lock is free and its class is not being explored: merge this step with the next
		// (coarser but sound); a held lock still parks the thread so that nobody ever blocks
		// on a mutex, which synctest could not see as durably blocked
		return
	}
	g := goid()
	if g == e.root {
		return // harness code running in the scheduler goroutine (oracles) never parks
	}
	e.mu.Lock()
	if e.poisoned {
		e.mu.Unlock()
		runtime.Goexit()
	}
	th := e.byGoid[g]
	if th == nil {
		th = &Thread{ID: len(e.threads), goid: g, grant: make(chan struct{}), spinSeen: map[string]uint64{}}
		th.Name = e.nameOf()
		th.Key = th.Name + "#" + strconv.Itoa(e.nameCount[th.Name])
		e.nameCount[th.Name]++
		e.threads = append(e.threads, th)
		e.byGoid[g] = th
	}
	th.parked, th.site, th.kind, th.mu = true, n, k, m
	if e.Cfg.TraceSites {
		th.Sites = append(th.Sites, n)
	}
	if e.SiteSet != nil {
		e.SiteSet[n]++
	}
	e.mu.Unlock()
	select {
	case e.wake <- struct{}{}:
	default:
	}
	<-th.grant
	if e.poisoned {
		runtime.Goexit()
	}
}

// Go starts a client thread; it parks before running f.
func (e *Env) Go(name string, f func()) *Thread {
	th := &Thread{ID: len(e.threads), Name: name, Key: name, client: true, grant: make(chan struct{}), spinSeen: map[string]uint64{}}
	e.threads = append(e.threads, th)
	go func() {
		g := goid()
		e.mu.Lock()
		th.goid = g
		e.byGoid[g] = th
		e.mu.Unlock()
		defer func() {
			// during teardown library goroutines are ended with Goexit; their deferred close()
			// of result channels can make a caller dereference a nil result: harness artefact
			if e.poisoned {
				_ = recover()
			}
		}()
		e.hook("h.start", kPoint, nil)
		f()
		e.mu.Lock()
		th.done = true
		e.mu.Unlock()
		select {
		case e.wake <- struct{}{}:
		default:
		}
	}()
	return th
}

// Poke wakes the scheduler if it is idling (an environment source has something new to offer).
func (e *Env) Poke() {
	select {
	case e.wake <- struct{}{}:
	default:
	}
}

// AddSource registers an environment source.
func (e *Env) AddSource(s EnvSource) { e.sources = append(e.sources, s) }

// OnFinish registers an oracle to run after the drain phase, still inside the bubble.
func (e *Env) OnFinish(f func()) { e.finish = append(e.finish, f) }

// Now is the virtual time since the start of the execution.
func (e *Env) Now() time.Duration { return time.Since(e.start) }

// Step is the number of scheduler decisions applied so far (a global logical clock).
func (e *Env) Step() int { return e.steps }

// Current returns the thread granted last (the one running now, from harness code called by it).
func (e *Env) Current() *Thread { return e.cur }

// Violate records an oracle failure.
func (e *Env) Violate(sig, format string, a ...interface{}) {
	e.mu.Lock()
	defer e.mu.Unlock()
	e.Violations = append(e.Violations, Violation{Sig: sig, Detail: fmt.Sprintf(format, a...)})
}

// OpenWindow marks the current decision index as the first one the explorer may vary.
func (e *Env) OpenWindow() { e.WindowFrom = len(e.Choices) }

// Observe adds an observation to the execution's outcome digest.
func (e *Env) Observe(format string, a ...interface{}) {
	e.mu.Lock()
	defer e.mu.Unlock()
	e.Obs = append(e.Obs, fmt.Sprintf(format, a...))
}

// Draining reports whether all client threads have finished.
func (e *Env) Draining() bool { return e.draining }

type option struct {
	label string
	th    *Thread
	act   *EnvAction
	idle  bool
	cost  uint8
}

func tryFree(site string, mu interface{}) bool {
	switch m := mu.(type) {
	case *sync.Mutex:
		if m.TryLock() {
			m.Unlock()
			return true
		}
		return false
	case *sync.RWMutex:
		if strings.HasSuffix(site, "rlock") {
			if m.TryRLock() {
				m.RUnlock()
				return true
			}
			return false
		}
		if m.TryLock() {
			m.Unlock()
			return true
		}
		return false
	}
	return true
}

func (e *Env) enabled(th *Thread) bool {
	if !th.parked || th.done {
		return false
	}
	switch th.kind {
	case kPoint:
		return true
	case kSpin:
		seen, ok := th.spinSeen[th.site]
		return !ok || seen != th.foreign
	case kAcquire:
		return tryFree(th.site, th.mu)
	}
	return true
}

func (e *Env) menu() []option {
	var out []option
	if e.last != nil && e.enabled(e.last) {
		out = append(out, option{label: e.last.Key + "@" + e.last.site, th: e.last})
	}
	var others []*Thread
	for _, th := range e.threads {
		if th == e.last || !e.enabled(th) {
			continue
		}
		others = append(others, th)
	}
	sort.Slice(others, func(i, j int) bool { return others[i].Key < others[j].Key })
	for _, th := range others {
		if e.Cfg.NoPreAlt && len(out) > 0 {
			break
		}
		out = append(out, option{label: th.Key + "@" + th.site, th: th, cost: CostPre})
	}
	hasEnv := false
	for _, s := range e.sources {
		acts := s.Actions()
		for i := range acts {
			a := acts[i]
			out = append(out, option{label: a.Label, act: &a, cost: CostEnv})
			hasEnv = true
		}
	}
	if e.Cfg.HoldPoints && !e.Cfg.NoPreAlt {
		for _, o := range out {
			if o.th != nil && o.th.kind == kPoint {
				out = append(out, option{label: "hold", idle: true, cost: CostPre})
				break
			}
		}
	}
	if len(out) > 0 {
		out[0].cost = CostNone
		if !e.Cfg.NoIdleAlt && (hasEnv || !e.Cfg.IdleEnvOnly) {
			out = append(out, option{label: "idle", idle: true, cost: CostEnv})
		}
	}
	return out
}

// event records that something happened which pollers other than by may want to look at.
func (e *Env) event(by *Thread) {
	e.events++
	for _, th := range e.threads {
		if th != by {
			th.foreign++
		}
	}
}

func (e *Env) clientsDone() bool {
	for _, th := range e.threads {
		if th.client && !th.done {
			return false
		}
	}
	return true
}

func fp(m []option) uint32 {
	h := fnv.New32a()
	for _, o := range m {
		h.Write([]byte(o.label))
		h.Write([]byte{0})
	}
	return h.Sum32()
}

// idle blocks the scheduler until a thread arrives at a hook or one tick passes.
func (e *Env) idle(limit time.Duration) {
	d := e.Cfg.Tick
	spinner := false
	for _, th := range e.threads {
		if th.parked && !th.done && th.kind == kSpin {
			spinner = true
			break
		}
	}
	if !spinner {
		// nobody polls: only a timer of the program under test or the limit can change anything
		d = limit - e.Now()
		if d < e.Cfg.Tick {
			d = e.Cfg.Tick
		}
	}
	deadline := e.Now() + d
	t := time.NewTimer(d)
	select {
	case <-e.wake:
	case <-t.C:
	}
	synctest.Wait()
	if !t.Stop() {
		select {
		case <-t.C:
		default:
		}
	}
	// whether the tick has passed is decided on the virtual clock, not on the state of the timer: a
	// thread that woke at the very instant the tick was due must not make the outcome depend on
	// which of two same-instant timers the runtime happened to run first
	if e.Now() >= deadline {
		e.event(nil)
	}
	select {
	case <-e.wake:
	default:
	}
}

func (e *Env) describeThreads() string {
	var sb strings.Builder
	stacks := map[uint64]string{}
	buf := make([]byte, 1<<20)
	n := runtime.Stack(buf, true)
	for _, g := range strings.Split(string(buf[:n]), "\n\n") {
		hdr, rest, _ := strings.Cut(g, "\n")
		f := strings.Fields(hdr)
		if len(f) < 2 {
			continue
		}
		id, _ := strconv.ParseUint(f[1], 10, 64)
		var fr []string
		for _, ln := range strings.Split(rest, "\n") {
			if strings.HasPrefix(ln, "\t") || strings.HasPrefix(ln, "created by") {
				continue
			}
			if k := strings.LastIndex(ln, "("); k > 0 {
				ln = ln[:k]
			}
			ln = strings.TrimPrefix(ln, "github.com/scrapli/scrapligo/")
			fr = append(fr, ln)
			if len(fr) == 4 {
				break
			}
		}
		stacks[id] = strings.TrimSuffix(strings.TrimPrefix(hdr[strings.Index(hdr, "["):], "["), "]:") + " " + strings.Join(fr, "<")
	}
	for _, th := range e.threads {
		st := "running/blocked"
		if th.done {
			st = "done"
		} else if th.parked {
			st = "parked@" + th.site
			if !e.enabled(th) {
				st += "(disabled)"
			}
		}
		if !th.done && !th.parked {
			st += "{" + stacks[th.goid] + "}"
		}
		fmt.Fprintf(&sb, "[%s]=%s ", th.Key, st)
	}
	mine := ""
	if st, ok := stacks[e.root]; ok {
		if i := strings.Index(st, "synctest bubble "); i >= 0 {
			mine = strings.Fields(st[i:])[0] + " " + strings.Fields(st[i:])[1] + " " + strings.Fields(st[i:])[2]
		}
	}
	fmt.Fprintf(&sb, " t=%v others:", e.Now())
	for id, st := range stacks {
		if e.byGoid[id] == nil && strings.Contains(st, "synctest bubble") && id != e.root && (mine == "" || strings.Contains(st, mine+" ")) {
			fmt.Fprintf(&sb, " {%s}", st)
		}
	}
	return sb.String()
}

// run is the scheduler loop; it is the root goroutine of the bubble.
func (e *Env) run(body func(*Env)) {
	e.start = time.Now()
	e.root = goid()
	e.wake = make(chan struct{}, 1)
	e.byGoid = map[uint64]*Thread{}
	e.nameCount = map[string]int{}
	if e.Cfg.Tick == 0 {
		e.Cfg.Tick = time.Second
	}
	if e.Cfg.Horizon == 0 {
		e.Cfg.Horizon = 1000 * e.Cfg.Tick
	}
	if e.Cfg.MaxSteps == 0 {
		e.Cfg.MaxSteps = 20000
	}
	current = e
	body(e)
	var drainEnd time.Duration
	for {
		synctest.Wait()
		select {
		case <-e.wake:
		default:
		}
		if !e.draining && e.clientsDone() {
			e.draining = true
			drainEnd = e.Now() + e.Cfg.Grace
		}
		m := e.menu()
		if len(m) == 0 {
			if e.draining && e.Now() >= drainEnd {
				break
			}
			if !e.draining && e.Now() >= e.Cfg.Horizon {
				e.Verdict = "hang"
				e.HangInfo = e.describeThreads()
				break
			}
			if e.draining {
				e.idle(drainEnd)
			} else {
				e.idle(e.Cfg.Horizon)
			}
			continue
		}
		if e.draining && e.Now() >= drainEnd+e.Cfg.Horizon {
			// something keeps spinning forever after the clients are done
			e.Verdict = "livelock-after-done"
			e.HangInfo = e.describeThreads()
			break
		}
		if !e.draining && e.Now() >= e.Cfg.Horizon {
			e.Verdict = "hang"
			e.HangInfo = e.describeThreads()
			break
		}
		c := 0
		if !e.draining {
			i := len(e.Choices)
			f := fp(m)
			if i < len(e.prefix) {
				c = e.prefix[i]
				if c >= len(m) || (i < len(e.prefixFP) && e.prefixFP[i] != f) {
					e.EngineErr = fmt.Sprintf("replay divergence at decision %d: choice %d of %d, menu %v", i, c, len(m), labels(m))
					e.Verdict = "engine"
					break
				}
			}
			rec := PointRec{N: len(m), FP: f, Costs: make([]uint8, len(m))}
			for k := range m {
				rec.Costs[k] = m[k].cost
			}
			if e.Cfg.KeepMenus {
				rec.Menu = fmt.Sprintf("[t=%v ev=%d] ", e.Now(), e.events) + strings.Join(labels(m), " | ")
			}
			e.Points = append(e.Points, rec)
			e.Choices = append(e.Choices, c)
		}
		e.apply(m[c])
		if e.Verdict != "" {
			break
		}
	}
	// leak oracle input, then oracles
	if e.Cfg.WantLeaks && e.Verdict != "engine" {
		e.Leaked = e.collectLeaks()
	}
	if e.Verdict != "engine" {
		for _, f := range e.finish {
			f()
		}
	}
	// teardown
	e.mu.Lock()
	e.poisoned = true
	e.mu.Unlock()
	for _, th := range e.threads {
		if th.parked && !th.done {
			th.parked = false
			select {
			case th.grant <- struct{}{}:
			default:
			}
		}
	}
	for _, s := range e.sources {
		if k, ok := s.(interface{ Kill() }); ok {
			k.Kill()
		}
	}
	time.Sleep(72 * time.Hour)
	synctest.Wait()
	// release threads that parked during teardown before poison was observed
	for _, th := range e.threads {
		select {
		case th.grant <- struct{}{}:
		default:
		}
	}
	synctest.Wait()
}

func labels(m []option) []string {
	out := make([]string, len(m))
	for i := range m {
		out[i] = m[i].label
	}
	return out
}

func (e *Env) apply(o option) {
	e.steps++
	switch {
	case o.idle:
		e.idle(e.Now() + e.Cfg.Tick)
	case o.th != nil:
		th := o.th
		th.parked = false
		if th.kind == kSpin {
			// a poll is presumed read-only: it is not an event for the other pollers (else two
			// pollers would re-enable each other for ever at one virtual instant); whatever it
			// changes becomes visible to them at the next tick at the latest. A thread's own
			// steps never re-enable its own polls (else a poll loop without a sleep would starve
			// everybody else under the run-on default).
			th.spinSeen[th.site] = th.foreign
		} else {
			e.event(th)
		}
		e.last, e.cur = th, th
		th.grant <- struct{}{}
	case o.act != nil:
		e.event(nil)
		o.act.Do()
	}
	if e.steps > e.Cfg.MaxSteps {
		e.Verdict = "livelock"
		e.HangInfo = e.describeThreads()
	}
}

// CallerThread returns the Thread of the calling goroutine (nil when it never reached a hook).
func (e *Env) CallerThread() *Thread {
	g := goid()
	e.mu.Lock()
	defer e.mu.Unlock()
	return e.byGoid[g]
}

// SetLast lets an environment source declare which thread its action resumed.
func (e *Env) SetLast(th *Thread) {
	if th != nil {
		e.last, e.cur = th, th
	}
}

func (e *Env) collectLeaks() []string {
	buf := make([]byte, 1<<20)
	n := runtime.Stack(buf, true)
	var out []string
	me := goid()
	gs := strings.Split(string(buf[:n]), "\n\n")
	bubble := ""
	for _, g := range gs {
		hdr, _, _ := strings.Cut(g, "\n")
		if strings.HasPrefix(hdr, "goroutine "+strconv.FormatUint(me, 10)+" ") {
			if i := strings.Index(hdr, "synctest bubble "); i >= 0 {
				bubble = strings.TrimRight(hdr[i:], "]:")
			}
		}
	}
	for _, g := range gs {
		hdr, rest, _ := strings.Cut(g, "\n")
		if bubble == "" || !strings.Contains(hdr, bubble+"]") {
			continue // not in this execution's bubble (leftovers of earlier executions stay blocked for ever)
		}
		if strings.HasPrefix(hdr, "goroutine "+strconv.FormatUint(me, 10)+" ") {
			continue
		}
		if !strings.Contains(rest, "github.com/scrapli/scrapligo/") {
			continue
		}
		// is it a client thread (harness program)? then not a library leak
		id, _ := strconv.ParseUint(strings.Fields(hdr)[1], 10, 64)
		if th := e.byGoid[id]; th != nil && th.client {
			continue
		}
		// top library frame
		top := ""
		for _, ln := range strings.Split(rest, "\n") {
			if strings.HasPrefix(ln, "github.com/scrapli/scrapligo/") {
				top = ln
				if i := strings.LastIndex(top, "("); i > 0 {
					top = top[:i]
				}
				top = strings.TrimPrefix(top, "github.com/scrapli/scrapligo/")
				break
			}
		}
		st := hdr[strings.Index(hdr, "[")+1:]
		if i := strings.Index(st, ","); i > 0 {
			st = st[:i]
		} else {
			st = strings.TrimSuffix(st, "]:")
		}
		out = append(out, top+" ["+st+"]")
	}
	return out
}

// Exec runs one execution of body with the given choice prefix inside a fresh bubble.
func Exec(t *testing.T, cfg Config, prefix []int, prefixFP []uint32, body func(*Env)) (e *Env) {
	e = &Env{Cfg: cfg, prefix: prefix, prefixFP: prefixFP, T: t}
	if cfg.TraceSites {
		e.SiteSet = map[string]int{}
	}
	defer func() {
		current = nil
		if r := recover(); r != nil {
			s := fmt.Sprint(r)
			if !strings.Contains(s, "deadlock: main bubble goroutine has exited") {
				e.EngineErr = "bubble panic: " + s
				e.Verdict = "engine"
			}
		}
	}()
	synctest.Test(t, func(*testing.T) { e.run(body) })
	return e
}

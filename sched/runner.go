package sched

import (
	"bufio"
	"bytes"
	"crypto/sha1"
	"encoding/hex"
	"encoding/json"
	"fmt"
	"hash/fnv"
	"io"
	"os"
	"os/exec"
	"path/filepath"
	"runtime"
	"sort"
	"strconv"
	"strings"
	"sync"
	"testing"
	"time"
)

// Scenario is one unit of work handed to a worker process.
type Scenario struct {
	Name string
	Run  func(w *W)
}

// Check describes one property's check.
type Check struct {
	ID          string
	Level       string // evidence level: model_checking | exploration | fault_enumeration
	Rule        string
	Assumptions []string
	Scenarios   func(tier string) []Scenario
	Budget      map[string]time.Duration // wall-clock budget per tier (internal deadline)
	Workers     int                      // 0 = NumCPU
	// Post runs an auxiliary leg in the master after the scenarios (the free-running race pass);
	// its violations are not replayed (a race report is a fact of the run that produced it).
	Post        func(tier string, seed int64) (vs []VRec, extra map[string]int, engineErrs []string)
	NoIsolation bool // run scenarios in the master process (no crash isolation)
}

// VRec is a violation as reported by a worker.
type VRec struct {
	Sig      string `json:"sig"`
	Detail   string `json:"detail"`
	Scenario string `json:"scenario"`
	Choices  []int  `json:"choices,omitempty"`
	Case     string `json:"case,omitempty"`
	Crash    bool   `json:"crash,omitempty"`
	// Mode "scenario": the violation did not reproduce as a single execution in a fresh process but did when
	// the whole scenario was re-run in one: it depends on state the library carries between sessions of a process.
	Mode string `json:"mode,omitempty"`
}

// SRec is the per-scenario result.
type SRec struct {
	Name        string         `json:"name"`
	Execs       int            `json:"execs"`
	Cases       int            `json:"cases"`
	States      int            `json:"states"`
	Transitions int            `json:"transitions"`
	MaxDepth    int            `json:"max_depth"`
	Outcomes    int            `json:"outcomes"`
	Nontrivial  int            `json:"nontrivial"`
	Capped      bool           `json:"capped"`
	Abandoned   bool           `json:"abandoned"`
	Skipped     int            `json:"skipped"`
	Sample      string         `json:"sample,omitempty"`
	Extra       map[string]int `json:"extra,omitempty"`
	EngineErr   string         `json:"engine_err,omitempty"`
	Recycle     bool           `json:"recycle,omitempty"` // the worker asks to be replaced (memory hygiene)
}

// W is the worker-side context of one scenario.
type W struct {
	T        *testing.T
	Tier     string
	Seed     int64
	idx      int
	name     string
	out      *bufio.Writer
	skip     map[string]bool
	deadline time.Time
	res      SRec
	outcomes map[uint64]struct{}
	nontriv  map[uint64]struct{}
	memTick  int
	sigCount map[string]int
	replay   *VRec
	stop     bool
	caseTag  string
}

// SetCase tags the violations of the following explorations with a case string (kept in the
// replay file and available through Replaying().Case).
func (w *W) SetCase(s string) {
	w.caseTag = s
	if w.replay == nil {
		fmt.Fprintf(w.out, "@@C %d %s\n", w.idx, strings.ReplaceAll(s, "\n", " "))
		w.out.Flush()
	}
}

const maxSameSig = 3

func csv(c []int) string {
	var sb strings.Builder
	for i, v := range c {
		if i > 0 {
			sb.WriteByte(',')
		}
		sb.WriteString(strconv.Itoa(v))
	}
	return sb.String()
}

func h64(s string) uint64 {
	h := fnv.New64a()
	h.Write([]byte(s))
	return h.Sum64()
}

func (w *W) emit(tag string, v interface{}) {
	b, _ := json.Marshal(v)
	fmt.Fprintf(w.out, "@@%s %d %s\n", tag, w.idx, b)
	w.out.Flush()
}

// Expired reports whether the wall-clock budget is used up (the scenario should stop and mark
// itself capped).
func (w *W) Expired() bool {
	if !w.deadline.IsZero() && time.Now().After(w.deadline) {
		w.res.Capped = true
		return true
	}
	// Goroutines of executions that ended in a dead bubble stay blocked for ever (see workerMain): in a scenario of
	// some hundred thousand executions that is gigabytes. A worker that outgrows its share of the machine's memory
	// stops the scenario (reported as capped) and is replaced, instead of driving the machine out of memory.
	w.memTick++
	if w.memTick%512 == 0 && !w.stop {
		var ms runtime.MemStats
		runtime.ReadMemStats(&ms)
		if ms.Sys > workerMemCap() {
			w.res.Capped = true
			w.Extra("capped_by_worker_memory", 1)
			w.stop = true
		}
	}
	return w.stop
}

var memCap uint64

// workerMemCap is a worker's share of 60% of the machine's memory (VERIF_WORKER_MEM_MB overrides), within [1, 4] GiB.
func workerMemCap() uint64 {
	if memCap != 0 {
		return memCap
	}
	memCap = 3 << 30
	if v, err := strconv.Atoi(os.Getenv("VERIF_WORKER_MEM_MB")); err == nil && v > 0 {
		memCap = uint64(v) << 20
		return memCap
	}
	if b, err := os.ReadFile("/proc/meminfo"); err == nil {
		for _, l := range strings.Split(string(b), "\n") {
			if f := strings.Fields(l); len(f) >= 2 && f[0] == "MemTotal:" {
				if kb, err := strconv.ParseUint(f[1], 10, 64); err == nil {
					memCap = kb * 1024 * 6 / 10 / uint64(runtime.NumCPU())
				}
			}
		}
	}
	if memCap < 1<<30 {
		memCap = 1 << 30
	}
	if memCap > 4<<30 {
		memCap = 4 << 30
	}
	return memCap
}

// Replaying returns the violation being replayed (nil in normal runs).
func (w *W) Replaying() *VRec { return w.replay }

// Violate reports a violation found outside an exploration (enumerations).
func (w *W) Violate(sig, detail, cse string) {
	w.sigCount[sig]++
	if w.sigCount[sig] > maxSameSig {
		return
	}
	w.emit("V", VRec{Sig: sig, Detail: detail, Scenario: w.name, Case: cse})
}

// Case counts one enumerated case. outcome feeds the distinct-outcome count; nontrivial (when
// non-empty) feeds distinct_nontrivial.
func (w *W) Case(outcome, nontrivial string) {
	w.res.Cases++
	if outcome != "" {
		w.outcomes[h64(outcome)] = struct{}{}
	}
	if nontrivial != "" {
		w.nontriv[h64(nontrivial)] = struct{}{}
	}
	if w.res.Sample == "" && nontrivial != "" {
		w.res.Sample = nontrivial
	}
}

// Extra adds to a named counter reported in the evidence.
func (w *W) Extra(k string, n int) {
	if w.res.Extra == nil {
		w.res.Extra = map[string]int{}
	}
	w.res.Extra[k] += n
}

// Explore runs a deviation-bounded exploration of body and reports every violating execution.
// Observations added with Env.Observe feed the distinct-outcome count.
func (w *W) Explore(cfg Config, b Bounds, body func(*Env)) Stats {
	if os.Getenv("VERIF_DEBUG") != "" {
		cfg.KeepMenus = true
		cfg.MaxSteps = 400
		var pre []int
		if w.replay != nil {
			pre = w.replay.Choices
		}
		e := Exec(w.T, cfg, pre, nil, body)
		for i, p := range e.Points {
			fmt.Fprintf(os.Stderr, "DBG %d choice=%d %s\n", i, e.Choices[i], p.Menu)
		}
		fmt.Fprintf(os.Stderr, "DBG verdict=%q hang=%s viol=%v obs=%q\n", e.Verdict, e.HangInfo, e.Violations, e.Obs)
	}
	if w.replay != nil {
		e := Exec(w.T, cfg, w.replay.Choices, nil, body)
		w.account(e)
		w.res.Execs++
		return Stats{Execs: 1}
	}
	st := Explore(w.T, cfg, b, body,
		func(prefix []int) bool {
			if w.Expired() {
				return false
			}
			k := csv(prefix)
			if w.skip[k] {
				return false
			}
			fmt.Fprintf(w.out, "@@R %d %s\n", w.idx, k)
			w.out.Flush()
			return true
		},
		func(e *Env) bool {
			w.account(e)
			return !w.stop
		})
	w.res.Execs += st.Execs
	w.res.States += st.States
	w.res.Transitions += st.Transitions
	if st.MaxDepth > w.res.MaxDepth {
		w.res.MaxDepth = st.MaxDepth
	}
	if st.Capped {
		w.res.Capped = true
	}
	w.res.Skipped += st.Skipped
	if st.Diverged > 0 {
		w.Extra("nondeterministic_prefixes_not_explored", st.Diverged)
		w.res.Capped = true
	}
	return st
}

var traceFile *os.File

func (w *W) account(e *Env) {
	if tf := os.Getenv("VERIF_TRACE"); tf != "" {
		if traceFile == nil {
			traceFile, _ = os.OpenFile(fmt.Sprintf("%s.%d", tf, os.Getpid()), os.O_CREATE|os.O_WRONLY|os.O_TRUNC, 0o644)
		}
		fmt.Fprintf(traceFile, "%s|%s|%s|%d|%q\n", w.name, w.caseTag, csv(e.Choices), len(e.Points), e.Obs)
	}
	if e.Verdict == "engine" {
		w.res.EngineErr = e.EngineErr
		w.emit("E", map[string]interface{}{"err": e.EngineErr, "choices": e.Choices, "scenario": w.name})
		w.stop = true
		return
	}
	o := strings.Join(e.Obs, "\x00")
	w.outcomes[h64(o)] = struct{}{}
	w.nontriv[h64(csv(e.Choices)+"|"+o)] = struct{}{}
	if w.res.Sample == "" {
		w.res.Sample = fmt.Sprintf("choices=[%s] obs=%q", csv(e.Choices), trunc(o, 300))
	}
	for _, v := range e.Violations {
		w.sigCount[v.Sig]++
		if w.sigCount[v.Sig] > maxSameSig {
			continue
		}
		w.emit("V", VRec{Sig: v.Sig, Detail: v.Detail, Scenario: w.name, Choices: e.Choices, Case: w.caseTag})
	}
	// a scenario whose every schedule fails the same way is uninformative beyond the first few
	tot := 0
	for _, n := range w.sigCount {
		if n >= maxSameSig {
			tot++
		}
	}
	if tot > 0 && len(w.sigCount) == tot {
		w.res.Abandoned = true
		w.stop = true
	}
}

func trunc(s string, n int) string {
	if len(s) > n {
		return s[:n] + "..."
	}
	return s
}

// ---------------------------------------------------------------------------------------------
// worker side

func workerMain(t *testing.T, c Check) {
	tier := os.Getenv("VERIF_TIER")
	seed, _ := strconv.ParseInt(os.Getenv("VERIF_SEED"), 10, 64)
	scs := c.Scenarios(tier)
	out := bufio.NewWriter(os.Stdout)
	in := bufio.NewReaderSize(os.Stdin, 1<<20)
	var deadline time.Time
	if d := os.Getenv("VERIF_DEADLINE_UNIX"); d != "" {
		n, _ := strconv.ParseInt(d, 10, 64)
		deadline = time.Unix(n, 0)
	}
	totalExecs := 0
	for {
		line, err := in.ReadString('\n')
		if err != nil {
			return
		}
		line = strings.TrimSpace(line)
		if line == "" {
			continue
		}
		cmd, rest, _ := strings.Cut(line, " ")
		if cmd == "Q" {
			return
		}
		idxs, payload, _ := strings.Cut(rest, " ")
		idx, _ := strconv.Atoi(idxs)
		w := &W{T: t, Tier: tier, Seed: seed, idx: idx, name: scs[idx].Name, out: out, deadline: deadline,
			skip: map[string]bool{}, outcomes: map[uint64]struct{}{}, nontriv: map[uint64]struct{}{}, sigCount: map[string]int{}}
		w.res.Name = w.name
		switch cmd {
		case "S":
			var skips []string
			_ = json.Unmarshal([]byte(payload), &skips)
			for _, s := range skips {
				w.skip[s] = true
			}
		case "X":
			var v VRec
			_ = json.Unmarshal([]byte(payload), &v)
			w.replay = &v
			w.deadline = time.Time{}
			fmt.Fprintf(out, "@@R %d %s\n", idx, csv(v.Choices))
			out.Flush()
		}
		scs[idx].Run(w)
		w.res.Outcomes = len(w.outcomes)
		w.res.Nontrivial = len(w.nontriv)
		totalExecs += w.res.Execs
		// goroutines of executions that ended in a dead bubble stay blocked for ever: they are
		// only memory, but a lot of it after some ten thousand executions
		var ms runtime.MemStats
		runtime.ReadMemStats(&ms)
		if totalExecs > 200000 || ms.Sys > 1<<30 || runtime.NumGoroutine() > 20000 {
			w.res.Recycle = true
		}
		w.emit("D", w.res)
		if w.res.Recycle {
			return
		}
	}
}

// ---------------------------------------------------------------------------------------------
// master side

type proc struct {
	cmd    *exec.Cmd
	in     io.WriteCloser
	lines  chan string
	stderr *tailBuf
}

type tailBuf struct {
	mu sync.Mutex
	b  []byte
}

func (t *tailBuf) Write(p []byte) (int, error) {
	t.mu.Lock()
	defer t.mu.Unlock()
	t.b = append(t.b, p...)
	if len(t.b) > 1<<20 {
		t.b = t.b[len(t.b)-(1<<19):]
	}
	return len(p), nil
}

func (t *tailBuf) String() string {
	t.mu.Lock()
	defer t.mu.Unlock()
	return string(t.b)
}

func spawn(tier string, seed int64, deadline time.Time) (*proc, error) {
	cmd := exec.Command(os.Args[0], "-test.run=^TestCheck$", "-test.timeout=0")
	cmd.Env = append(os.Environ(), "VERIF_MODE=worker", "VERIF_TIER="+tier, "VERIF_SEED="+strconv.FormatInt(seed, 10), "GOMAXPROCS=1", "GOTRACEBACK=all")
	if !deadline.IsZero() {
		cmd.Env = append(cmd.Env, "VERIF_DEADLINE_UNIX="+strconv.FormatInt(deadline.Unix(), 10))
	}
	in, err := cmd.StdinPipe()
	if err != nil {
		return nil, err
	}
	so, err := cmd.StdoutPipe()
	if err != nil {
		return nil, err
	}
	p := &proc{cmd: cmd, in: in, lines: make(chan string, 1024), stderr: &tailBuf{}}
	cmd.Stderr = p.stderr
	if err := cmd.Start(); err != nil {
		return nil, err
	}
	go func() {
		r := bufio.NewReaderSize(so, 1<<20)
		for {
			l, err := r.ReadString('\n')
			if strings.HasPrefix(l, "@@") {
				p.lines <- strings.TrimRight(l, "\n")
			} else if l != "" {
				_, _ = p.stderr.Write([]byte(l))
			}
			if err != nil {
				close(p.lines)
				return
			}
		}
	}()
	return p, nil
}

func (p *proc) kill() {
	_ = p.in.Close()
	_ = p.cmd.Process.Kill()
	_ = p.cmd.Wait()
}

// crashSig derives a signature from a dead worker's stderr.
func crashSig(stderr string) (sig, detail string) {
	lines := strings.Split(stderr, "\n")
	msg, frame := "", ""
	start := -1
	for i, l := range lines {
		if strings.HasPrefix(l, "panic: ") || strings.HasPrefix(l, "fatal error: ") {
			msg = l
			start = i
			break
		}
	}
	if start < 0 {
		return "crash:unknown", trunc(stderr, 2000)
	}
	for _, l := range lines[start:] {
		if strings.HasPrefix(l, "github.com/scrapli/scrapligo/") {
			frame = strings.TrimPrefix(l, "github.com/scrapli/scrapligo/")
			if i := strings.LastIndex(frame, "("); i > 0 {
				frame = frame[:i]
			}
			break
		}
	}
	msg = strings.TrimPrefix(msg, "panic: ")
	if i := strings.Index(msg, " [recovered]"); i > 0 {
		msg = msg[:i]
	}
	// drop addresses / goroutine numbers
	f := strings.Fields(msg)
	for i := range f {
		if strings.HasPrefix(f[i], "0x") || strings.HasPrefix(f[i], "[0x") {
			f[i] = "ADDR"
		}
	}
	msg = strings.Join(f, "_")
	end := start + 40
	if end > len(lines) {
		end = len(lines)
	}
	return "panic:" + sanitize(msg) + "@" + frame, strings.Join(lines[start:end], "\n")
}

func sanitize(s string) string {
	var sb strings.Builder
	for _, r := range s {
		switch {
		case r >= 'a' && r <= 'z', r >= 'A' && r <= 'Z', r >= '0' && r <= '9', r == '_', r == '-', r == '.', r == ':', r == '/', r == '*', r == '#', r == '=', r == '<', r == '>', r == '+', r == ',', r == '@', r == '(', r == ')':
			sb.WriteRune(r)
		default:
			sb.WriteByte('_')
		}
	}
	return trunc(sb.String(), 160)
}

type finding struct {
	status string // open | fixed
	prop   string
	sig    string
	text   string
}

func loadFindings(dir string) []finding {
	b, err := os.ReadFile(filepath.Join(dir, "KNOWN_FINDINGS.txt"))
	if err != nil {
		return nil
	}
	var out []finding
	for _, l := range strings.Split(string(b), "\n") {
		l = strings.TrimSpace(l)
		if l == "" || strings.HasPrefix(l, "#") {
			continue
		}
		st, rest, ok := strings.Cut(l, ": ")
		if !ok {
			continue
		}
		f := finding{status: st}
		for _, tok := range strings.Fields(rest) {
			if strings.HasPrefix(tok, "property=") && f.prop == "" {
				f.prop = strings.TrimPrefix(tok, "property=")
			} else if strings.HasPrefix(tok, "sig=") && f.sig == "" {
				f.sig = strings.TrimPrefix(tok, "sig=")
			}
		}
		f.text = rest
		out = append(out, f)
	}
	return out
}

func verifDir() string {
	if d := os.Getenv("VERIF_DIR"); d != "" {
		return d
	}
	return "/verif"
}

type result struct {
	srecs      []SRec
	violations []VRec
	engineErrs []string
}

// runAll dispatches all scenarios over worker processes.
func runAll(c Check, tier string, seed int64, n int, deadline time.Time, only map[int]bool) result {
	type job struct {
		idx     int
		skips   []string
		crashes int
	}
	var (
		mu   sync.Mutex
		res  result
		jobs = make(chan job, n+16)
		wg   sync.WaitGroup
	)
	order := make([]int, 0, n)
	for i := 0; i < n; i++ {
		if only == nil || only[i] {
			order = append(order, i)
		}
	}
	pending := len(order)
	var pmu sync.Mutex
	done := make(chan struct{})
	finish := func() {
		pmu.Lock()
		pending--
		if pending == 0 {
			close(done)
		}
		pmu.Unlock()
	}
	go func() {
		for _, i := range order {
			jobs <- job{idx: i}
		}
	}()
	nw := c.Workers
	if nw == 0 {
		nw = runtime.NumCPU()
	}
	if nw > len(order) {
		nw = len(order)
	}
	if len(order) == 0 {
		return res
	}
	for k := 0; k < nw; k++ {
		wg.Add(1)
		go func() {
			defer wg.Done()
			var p *proc
			defer func() {
				if p != nil {
					_, _ = io.WriteString(p.in, "Q\n")
					p.kill()
				}
			}()
			for {
				var j job
				select {
				case j = <-jobs:
				case <-done:
					return
				}
				if !deadline.IsZero() && time.Now().After(deadline) {
					mu.Lock()
					res.srecs = append(res.srecs, SRec{Name: "(not started) #" + strconv.Itoa(j.idx), Capped: true})
					mu.Unlock()
					finish()
					continue
				}
				if p == nil {
					var err error
					p, err = spawn(tier, seed, deadline)
					if err != nil {
						mu.Lock()
						res.engineErrs = append(res.engineErrs, "spawn: "+err.Error())
						mu.Unlock()
						finish()
						continue
					}
				}
				sk, _ := json.Marshal(j.skips)
				_, _ = fmt.Fprintf(p.in, "S %d %s\n", j.idx, sk)
				lastR := ""
				lastC := ""
				finished := false
				watch := time.NewTimer(10 * time.Minute)
			loop:
				for {
					select {
					case l, ok := <-p.lines:
						if !ok {
							break loop
						}
						if !watch.Stop() {
							select {
							case <-watch.C:
							default:
							}
						}
						watch.Reset(10 * time.Minute)
						tag, rest, _ := strings.Cut(l[2:], " ")
						_, payload, _ := strings.Cut(rest, " ")
						switch tag {
						case "R":
							lastR = payload
						case "C":
							lastC = payload
						case "V":
							var v VRec
							_ = json.Unmarshal([]byte(payload), &v)
							mu.Lock()
							res.violations = append(res.violations, v)
							mu.Unlock()
						case "E":
							mu.Lock()
							res.engineErrs = append(res.engineErrs, payload)
							mu.Unlock()
						case "D":
							var s SRec
							_ = json.Unmarshal([]byte(payload), &s)
							s.Skipped += len(j.skips)
							mu.Lock()
							res.srecs = append(res.srecs, s)
							mu.Unlock()
							finished = true
							if s.Recycle {
								p.kill()
								p = nil
							}
							break loop
						}
					case <-watch.C:
						mu.Lock()
						res.engineErrs = append(res.engineErrs, fmt.Sprintf("watchdog: worker silent for 10m in scenario %d after choices [%s]; stderr tail: %s", j.idx, lastR, trunc(p.stderr.String(), 1500)))
						mu.Unlock()
						p.kill()
						p = nil
						finished = true // give up on the scenario
						break loop
					}
				}
				watch.Stop()
				if finished {
					finish()
					continue
				}
				// worker died
				_ = p.cmd.Wait()
				sig, detail := crashSig(p.stderr.String())
				p = nil
				var ch []int
				for _, s := range strings.Split(lastR, ",") {
					if s != "" {
						v, _ := strconv.Atoi(s)
						ch = append(ch, v)
					}
				}
				name := "#" + strconv.Itoa(j.idx)
				mu.Lock()
				res.violations = append(res.violations, VRec{Sig: sig, Detail: detail, Scenario: name, Choices: ch, Crash: true, Case: lastC})
				mu.Unlock()
				j.crashes++
				j.skips = append(j.skips, lastR)
				if j.crashes >= maxSameSig {
					mu.Lock()
					res.srecs = append(res.srecs, SRec{Name: name, Abandoned: true, Skipped: len(j.skips)})
					mu.Unlock()
					finish()
					continue
				}
				jobs <- j
			}
		}()
	}
	wg.Wait()
	return res
}

func replayOnce(tier string, seed int64, idx int, v VRec) (sigs []string, engine string) {
	p, err := spawn(tier, seed, time.Time{})
	if err != nil {
		return nil, err.Error()
	}
	defer p.kill()
	if os.Getenv("VERIF_DEBUG") != "" {
		defer func() { fmt.Println(p.stderr.String()) }()
	}
	b, _ := json.Marshal(v)
	to := time.After(5 * time.Minute)
	if v.Mode == "scenario" {
		_, _ = fmt.Fprintf(p.in, "S %d []\n", idx)
		to = time.After(15 * time.Minute)
	} else {
		_, _ = fmt.Fprintf(p.in, "X %d %s\n", idx, b)
	}
	for {
		select {
		case l, ok := <-p.lines:
			if !ok {
				_ = p.cmd.Wait()
				s, _ := crashSig(p.stderr.String())
				return append(sigs, s), ""
			}
			tag, rest, _ := strings.Cut(l[2:], " ")
			_, payload, _ := strings.Cut(rest, " ")
			switch tag {
			case "V":
				var vv VRec
				_ = json.Unmarshal([]byte(payload), &vv)
				sigs = append(sigs, vv.Sig)
			case "E":
				return sigs, payload
			case "D":
				return sigs, ""
			}
		case <-to:
			return sigs, "replay watchdog"
		}
	}
}

// Main is the entry point of every check's TestCheck.
func Main(t *testing.T, c Check) {
	switch os.Getenv("VERIF_MODE") {
	case "worker":
		workerMain(t, c)
		return
	}
	tier := os.Getenv("VERIF_TIER")
	if tier == "" {
		tier = "quick"
	}
	seed, _ := strconv.ParseInt(os.Getenv("VERIF_SEED"), 10, 64)
	dir := verifDir()
	scs := c.Scenarios(tier)
	names := map[string]int{}
	for i, s := range scs {
		if _, dup := names[s.Name]; dup {
			fmt.Printf("ENGINE-ERROR duplicate scenario name %q\n", s.Name)
			os.Exit(2)
		}
		names[s.Name] = i
	}

	if rp := os.Getenv("VERIF_REPLAY"); rp != "" {
		b, err := os.ReadFile(rp)
		if err != nil {
			fmt.Println("ENGINE-ERROR", err)
			os.Exit(2)
		}
		var v VRec
		if err := json.Unmarshal(b, &v); err != nil {
			fmt.Println("ENGINE-ERROR", err)
			os.Exit(2)
		}
		idx, ok := names[v.Scenario]
		if !ok {
			fmt.Printf("ENGINE-ERROR scenario %q not in tier %s\n", v.Scenario, tier)
			os.Exit(2)
		}
		sigs, eng := replayOnce(tier, seed, idx, v)
		if eng != "" {
			fmt.Println("ENGINE-ERROR", eng)
			os.Exit(2)
		}
		for _, s := range sigs {
			if s == v.Sig {
				fmt.Printf("VIOLATION property=%s replay=%s\n  reproduced sig=%s\n", c.ID, rp, s)
				os.Exit(1)
			}
		}
		fmt.Printf("replay of %s did not reproduce sig=%s (observed %v)\n", rp, v.Sig, sigs)
		os.Exit(0)
	}

	start := time.Now()
	var deadline time.Time
	if d, ok := c.Budget[tier]; ok && d > 0 {
		deadline = start.Add(d)
	}
	var only map[int]bool
	if f := os.Getenv("VERIF_ONLY"); f != "" {
		only = map[int]bool{}
		for i, s := range scs {
			if strings.Contains(s.Name, f) {
				only[i] = true
			}
		}
	}
	res := runAll(c, tier, seed, len(scs), deadline, only)
	postExtra := map[string]int{}
	noConfirm := map[string]bool{}
	if c.Post != nil && only == nil {
		vs, ex, ee := c.Post(tier, seed)
		for _, v := range vs {
			noConfirm[v.Sig] = true
		}
		res.violations = append(res.violations, vs...)
		res.engineErrs = append(res.engineErrs, ee...)
		postExtra = ex
	}

	// fix up crash scenario names
	for i := range res.violations {
		v := &res.violations[i]
		if strings.HasPrefix(v.Scenario, "#") {
			k, _ := strconv.Atoi(v.Scenario[1:])
			v.Scenario = scs[k].Name
		}
	}
	for i := range res.srecs {
		s := &res.srecs[i]
		if strings.HasPrefix(s.Name, "#") {
			k, _ := strconv.Atoi(s.Name[1:])
			s.Name = scs[k].Name
		}
	}

	// group violations by signature; confirm the first of each by replaying it
	bySig := map[string][]VRec{}
	var sigOrder []string
	for _, v := range res.violations {
		if _, ok := bySig[v.Sig]; !ok {
			sigOrder = append(sigOrder, v.Sig)
		}
		bySig[v.Sig] = append(bySig[v.Sig], v)
	}
	sort.Strings(sigOrder)
	findings := loadFindings(dir)
	open := map[string]finding{}
	for _, f := range findings {
		if f.status == "open" && f.prop == c.ID {
			open[f.sig] = f
		}
	}
	_ = os.MkdirAll(filepath.Join(dir, "replays"), 0o755)
	exit := 0
	nviol := 0
	var unconfirmed []string
	var vioSamples []map[string]interface{}
	for _, sig := range sigOrder {
		vs := bySig[sig]
		v := vs[0]
		reproduced := 0
		const reruns = 3
		if !c.NoIsolation && !noConfirm[sig] {
			// candidates: the first recorded execution, then a few others (other scenarios / cases first)
			cands := []VRec{vs[0]}
			seenC := map[string]bool{vs[0].Scenario + "|" + vs[0].Case: true}
			for _, o := range vs[1:] {
				if k := o.Scenario + "|" + o.Case; !seenC[k] && len(cands) < 6 {
					seenC[k] = true
					cands = append(cands, o)
				}
			}
			try := func(cv VRec, n int) int {
				got := 0
				for r := 0; r < n; r++ {
					sigs, eng := replayOnce(tier, seed, names[cv.Scenario], cv)
					if eng != "" {
						res.engineErrs = append(res.engineErrs, "replay of "+sig+": "+eng)
						break
					}
					for _, s := range sigs {
						if s == sig {
							got++
							break
						}
					}
				}
				return got
			}
			for _, cv := range cands {
				if reproduced = try(cv, reruns); reproduced > 0 {
					v = cv
					break
				}
			}
			if reproduced == 0 {
				// not reproducible as one execution in a fresh process: re-run the whole scenario in one
				sv := vs[0]
				sv.Mode = "scenario"
				if try(sv, 1) > 0 {
					reproduced = reruns
					v = sv
					v.Detail = "(not reproducible as a single session in a fresh process; reproduced by re-running the whole scenario in a fresh process: depends on state carried between sessions of one process) " + v.Detail
				}
			}
			if reproduced == 0 {
				// observed once, never again: neither a fresh process replaying that execution (3x, for up to six
				// recorded executions) nor a re-run of the whole scenario shows it. Not believed, not reported as a
				// violation, and not an engine error either (a check must stay quiet on a tree where the property
				// holds); it is written down for diagnosis and makes the run non-exhaustive.
				msg := fmt.Sprintf("sig=%s scenario=%q choices=[%s] case=%q observed in %d execution(s), reproduced 0/%d times; detail: %s", sig, v.Scenario, csv(v.Choices), v.Case, len(vs), reruns, trunc(v.Detail, 3000))
				unconfirmed = append(unconfirmed, msg)
				continue
			}
			if reproduced != reruns {
				v.Detail = fmt.Sprintf("(reproduced %d of %d replays) ", reproduced, reruns) + v.Detail
			}
		}
		if f, ok := open[sig]; ok {
			fmt.Printf("KNOWN-FINDING: property=%s sig=%s (%d executions) %s\n", c.ID, sig, len(vs), f.text)
			continue
		}
		nviol++
		hsum := sha1.Sum([]byte(sig + "|" + v.Scenario + "|" + csv(v.Choices) + "|" + v.Case))
		path := filepath.Join(dir, "replays", c.ID+"-"+hex.EncodeToString(hsum[:6])+".json")
		b, _ := json.MarshalIndent(v, "", " ")
		_ = os.WriteFile(path, b, 0o644)
		fmt.Printf("VIOLATION property=%s replay=%s\n  sig=%s\n  scenario=%s\n  choices=[%s]\n  detail=%s\n", c.ID, path, sig, v.Scenario, csv(v.Choices), trunc(v.Detail, 1500))
		vioSamples = append(vioSamples, map[string]interface{}{"sig": sig, "scenario": v.Scenario, "choices": v.Choices, "replay": path})
		exit = 1
	}

	// evidence
	cov := map[string]interface{}{}
	var execs, cases, states, trans, maxd, outcomes, nontriv, capped, abandoned, skipped int
	extra := map[string]int{}
	for k, v := range postExtra {
		extra[k] += v
	}
	var samples []interface{}
	sort.Slice(res.srecs, func(i, j int) bool { return res.srecs[i].Name < res.srecs[j].Name })
	for i, s := range res.srecs {
		execs += s.Execs
		cases += s.Cases
		states += s.States
		trans += s.Transitions
		outcomes += s.Outcomes
		nontriv += s.Nontrivial
		skipped += s.Skipped
		if s.MaxDepth > maxd {
			maxd = s.MaxDepth
		}
		if s.Capped {
			capped++
		}
		if s.Abandoned {
			abandoned++
		}
		for k, v := range s.Extra {
			extra[k] += v
		}
		if (i < 3 || i == len(res.srecs)-1) && s.Sample != "" {
			samples = append(samples, map[string]string{"scenario": s.Name, "case": s.Sample})
		}
	}
	if dp := os.Getenv("VERIF_DUMP"); dp != "" {
		db, _ := json.Marshal(res.srecs)
		_ = os.WriteFile(dp, db, 0o644)
	}
	if len(samples) == 0 {
		samples = append(samples, "none")
	}
	cov["evaluations"] = execs + cases
	cov["distinct_nontrivial"] = nontriv
	cov["rule"] = c.Rule
	cov["samples"] = samples
	cov["scenarios"] = len(res.srecs)
	cov["executions"] = execs
	cov["enumerated_cases"] = cases
	cov["distinct_outcomes"] = outcomes
	cov["max_depth"] = maxd
	cov["scenarios_capped"] = capped
	cov["scenarios_abandoned_after_repeated_violation"] = abandoned
	cov["executions_skipped_known_crashers"] = skipped
	cov["exhaustive"] = capped == 0 && abandoned == 0 && len(res.engineErrs) == 0 && len(unconfirmed) == 0 && only == nil
	if len(unconfirmed) > 0 {
		cov["unconfirmed_observations"] = unconfirmed
		_ = os.MkdirAll(filepath.Join(dir, "bin"), 0o755)
		if f, err := os.OpenFile(filepath.Join(dir, "bin", "unconfirmed-"+c.ID+".log"), os.O_CREATE|os.O_APPEND|os.O_WRONLY, 0o644); err == nil {
			for _, u := range unconfirmed {
				repo := os.Getenv("VERIF_REPO") // set when a patched scratch copy is being checked
				if repo == "" {
					repo = "/repo"
				}
				fmt.Fprintf(f, "%s tier=%s tree=%s %s\n", time.Now().Format(time.RFC3339), tier, repo, u)
			}
			_ = f.Close()
		}
	}
	if execs > 0 {
		cov["states"] = states
		cov["transitions"] = trans
		cov["traces_validated_against_impl"] = execs
	}
	if len(extra) > 0 {
		cov["extra"] = extra
	}
	if len(vioSamples) > 0 {
		cov["violation_samples"] = vioSamples
	}
	if len(res.engineErrs) > 0 {
		cov["engine_errors"] = res.engineErrs
	}
	ev := map[string]interface{}{
		"property_id": c.ID,
		"tier":        tier,
		"seed":        seed,
		"level":       c.Level,
		"coverage":    cov,
		"assumptions": c.Assumptions,
		"wall_s":      time.Since(start).Seconds(),
		"violations":  nviol,
	}
	evDir := filepath.Join(dir, "evidence")
	if d := os.Getenv("VERIF_EVIDENCE_DIR"); d != "" {
		evDir = d
	}
	_ = os.MkdirAll(evDir, 0o755)
	eb, _ := json.MarshalIndent(ev, "", " ")
	if only == nil {
		_ = os.WriteFile(filepath.Join(evDir, c.ID+".json"), eb, 0o644)
	}
	fmt.Printf("SUMMARY property=%s tier=%s scenarios=%d executions=%d cases=%d states=%d transitions=%d outcomes=%d capped=%d abandoned=%d violations=%d wall=%.1fs\n",
		c.ID, tier, len(res.srecs), execs, cases, states, trans, outcomes, capped, abandoned, nviol, time.Since(start).Seconds())
	for _, u := range unconfirmed {
		fmt.Println("UNCONFIRMED-OBSERVATION (not reported)", trunc(u, 600))
	}
	if len(res.engineErrs) > 0 {
		for _, e := range res.engineErrs {
			fmt.Println("ENGINE-ERROR", trunc(e, 2000))
		}
		if exit == 0 {
			exit = 2
		}
	}
	if exit != 0 {
		os.Exit(exit)
	}
}

var _ = bytes.Compare

package sched

import (
	"fmt"
	"os"
	"os/exec"
	"path/filepath"
	"regexp"
	"sort"
	"strings"
	"time"
)

var raceFrame = regexp.MustCompile(`(github\.com/scrapli/scrapligo/\S+?)\(\)\n\s+(\S+?):(\d+)`)

// RacePost returns a Post function that runs the free-running -race binary (built by run.sh as
// bin/race.test) for the given test and turns each distinct data race into a violation whose
// signature is the pair of top library frames.
func RacePost(testName string) func(tier string, seed int64) ([]VRec, map[string]int, []string) {
	return func(tier string, seed int64) ([]VRec, map[string]int, []string) {
		bin := filepath.Join(verifDir(), "bin", "race.test")
		if b := os.Getenv("VERIF_RACE_BIN"); b != "" {
			bin = b // run.sh builds a separate binary when it checks a scratch copy of the repository
		}
		if _, err := os.Stat(bin); err != nil {
			return nil, nil, []string{"race leg: " + bin + " not built"}
		}
		dir, err := os.MkdirTemp("", "racelog")
		if err != nil {
			return nil, nil, []string{"race leg: " + err.Error()}
		}
		defer os.RemoveAll(dir)
		cmd := exec.Command(bin, "-test.run=^"+testName+"$", "-test.timeout=20m")
		cmd.Env = append(os.Environ(), "GORACE=halt_on_error=0 log_path="+filepath.Join(dir, "r"), "VERIF_TIER="+tier, fmt.Sprintf("VERIF_SEED=%d", seed))
		t0 := time.Now()
		out, runErr := cmd.CombinedOutput()
		extra := map[string]int{"race_pass_wall_ms": int(time.Since(t0).Milliseconds())}
		sites := 0
		for _, l := range strings.Split(string(out), "\n") {
			if strings.HasPrefix(l, "@@SITES ") {
				fmt.Sscanf(l, "@@SITES %d", &sites)
			}
		}
		extra["race_pass_hook_sites_reached"] = sites
		files, _ := filepath.Glob(filepath.Join(dir, "r.*"))
		bySig := map[string]string{}
		reports := 0
		for _, f := range files {
			b, _ := os.ReadFile(f)
			for _, blk := range strings.Split(string(b), "WARNING: DATA RACE")[1:] {
				blk = strings.Split(blk, "==================")[0]
				reports++
				parts := regexp.MustCompile(`\n\s*\n`).Split(strings.TrimSpace(blk), -1)
				var tops []string
				lib := false
				for i, p := range parts {
					if i >= 2 {
						break
					}
					if m := raceFrame.FindStringSubmatch(p); m != nil {
						fn := strings.TrimPrefix(m[1], "github.com/scrapli/scrapligo/")
						if !strings.HasPrefix(fn, "util/verifhook") {
							lib = true
						}
						tops = append(tops, fn)
					} else {
						tops = append(tops, "harness")
					}
				}
				if !lib {
					continue // a race of the harness with itself, not of the library
				}
				sort.Strings(tops)
				sig := "race:" + sanitize(strings.Join(tops, "_x_"))
				if _, ok := bySig[sig]; !ok {
					bySig[sig] = trunc("WARNING: DATA RACE"+blk, 3000)
				}
			}
		}
		extra["race_reports"] = reports
		var vs []VRec
		for sig, d := range bySig {
			vs = append(vs, VRec{Sig: sig, Detail: d, Scenario: "race-pass/" + testName, Case: "free-running -race pass"})
		}
		if loc := regexp.MustCompile(`(?m)^(panic|fatal error): .*$`).FindStringIndex(string(out)); loc != nil && !strings.Contains(string(out)[loc[0]:], "test timed out") {
			line := string(out)[loc[0]:loc[1]]
			vs = append(vs, VRec{Sig: "race-pass:" + sanitize(trunc(line, 80)), Detail: trunc(string(out)[loc[0]:], 3000), Scenario: "race-pass/" + testName, Case: "free-running -race pass"})
		}
		if i := strings.Index(string(out), "@@HANG"); i >= 0 {
			vs = append(vs, VRec{Sig: "race-pass:hang:" + testName, Detail: trunc(string(out)[i:], 3000), Scenario: "race-pass/" + testName, Case: "free-running -race pass"})
		}
		var ee []string
		if runErr != nil && len(vs) == 0 && !strings.Contains(string(out), "race detected") {
			if strings.Contains(string(out), "test timed out") {
				// the harness reports a session that hangs by itself (@@HANG, after 2 minutes); running into the
				// wall-clock allowance of the whole pass without such a report means a slow (loaded) machine. The
				// pass is a sampling leg: not finishing it is recorded, it is neither a violation nor an engine error
				extra["race_leg_incomplete"] = 1
				fmt.Println("NOTE the free-running -race pass did not finish within its wall-clock allowance (loaded machine?); recorded as race_leg_incomplete")
			} else {
				ee = append(ee, "race leg failed: "+runErr.Error()+": "+trunc(string(out), 1500))
			}
		}
		return vs, extra, ee
	}
}

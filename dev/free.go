package dev

import (
	"io"
	"sync"

	"github.com/scrapli/scrapligo/transport"
)

// FreeTransport is the free-running counterpart of FakeTransport for the race-detector pass: no
// scheduler, real blocking, its own synchronisation (so that it never hides or creates a race in
// the library: the library only ever talks to it through Read/Write/Close).
type FreeTransport struct {
	mu      sync.Mutex
	cond    *sync.Cond
	Dev     Device
	pending []byte
	closed  bool
	lossErr error // when set: returned by the next reads once pending is drained
	persist bool
	OnClose CloseMode
	MaxRead int
}

// NewFree returns a free-running transport.
func NewFree(d Device) *FreeTransport {
	t := &FreeTransport{Dev: d}
	t.cond = sync.NewCond(&t.mu)
	return t
}

func (t *FreeTransport) Open(_ *transport.Args) error {
	t.mu.Lock()
	defer t.mu.Unlock()
	t.pending = append(t.pending, t.Dev.Connect()...)
	t.cond.Broadcast()
	return nil
}

func (t *FreeTransport) Close() error {
	t.mu.Lock()
	defer t.mu.Unlock()
	t.closed = true
	t.cond.Broadcast()
	return nil
}

func (t *FreeTransport) IsAlive() bool { t.mu.Lock(); defer t.mu.Unlock(); return !t.closed }

// Lose makes the connection fail with err (io.EOF or ErrEIO) once the pending bytes are read.
func (t *FreeTransport) Lose(err error, persistent bool) {
	t.mu.Lock()
	defer t.mu.Unlock()
	t.lossErr, t.persist = err, persistent
	t.cond.Broadcast()
}

// Inject appends unsolicited device output.
func (t *FreeTransport) Inject(b []byte) {
	t.mu.Lock()
	defer t.mu.Unlock()
	t.pending = append(t.pending, b...)
	t.cond.Broadcast()
}

func (t *FreeTransport) Read(n int) ([]byte, error) {
	t.mu.Lock()
	defer t.mu.Unlock()
	for {
		if len(t.pending) > 0 {
			k := len(t.pending)
			if k > n {
				k = n
			}
			if t.MaxRead > 0 && k > t.MaxRead {
				k = t.MaxRead
			}
			b := append([]byte(nil), t.pending[:k]...)
			t.pending = t.pending[k:]
			return b, nil
		}
		if t.closed {
			switch t.OnClose {
			case CloseEOF:
				return nil, io.EOF
			case CloseEIO:
				return nil, ErrEIO
			}
		}
		if t.lossErr != nil {
			err := t.lossErr
			if !t.persist {
				t.lossErr = io.EOF
			}
			return nil, err
		}
		t.cond.Wait()
	}
}

func (t *FreeTransport) Write(b []byte) error {
	t.mu.Lock()
	defer t.mu.Unlock()
	if t.closed {
		return ErrClosed
	}
	if t.lossErr != nil {
		return nil
	}
	t.pending = append(t.pending, t.Dev.React(b)...)
	t.cond.Broadcast()
	return nil
}

package dev

import (
	"bytes"
	"fmt"
	"regexp"
	"strconv"
	"strings"
)

// NCBehavior says what the server does with one request.
type NCBehavior int

const (
	ReplyNow   NCBehavior = iota
	ReplyNever            // the request is swallowed
	ReplyHeld             // the reply is kept until Release(i) (late reply)
)

const (
	Delim10 = "]]>]]>"
	Cap10   = "urn:ietf:params:netconf:base:1.0"
	Cap11   = "urn:ietf:params:netconf:base:1.1"
	NSBase  = "urn:ietf:params:xml:ns:netconf:base:1.0"
)

// NCReq is one request as the server saw it.
type NCReq struct {
	Raw     string // framed bytes
	Payload string // decoded (lenient)
	ID      string // message-id attribute
}

// NCServer is a causal NETCONF server model.
type NCServer struct {
	Hello        string // server hello document (without the delimiter); "" = never says hello
	Banner       string // bytes sent before the hello
	Echo         bool   // echo every received byte (pty-like transport)
	Behave       func(i int, req NCReq) (payload string, b NCBehavior)
	Chunks       func(i int, payload []byte) [][]byte // 1.1 chunk partition of reply i (nil: one chunk)
	Force10      bool                                 // keep end-of-message framing whatever was negotiated
	Out          func([]byte)                         // asynchronous output (set to FakeTransport.Inject)
	NoHelloDelim bool
	HelloTrail   string // bytes sent right after the hello's delimiter (e.g. a line feed)

	// EmitBefore / EmitAfter list held replies (by request index) to emit immediately before /
	// after the reply (or non-reply) to request i.
	EmitBefore map[int][]int
	EmitAfter  map[int][]int
	// Ends holds the output-stream offset after each complete server message (hello, replies):
	// a transport read must not span one of them.
	Ends   []int
	outOff int

	in          []byte
	helloDone   bool
	Version     string // negotiated framing ("1.0"/"1.1"); "" before the client hello
	ClientHello string
	Requests    []NCReq
	held        map[int][]byte
	Received    []byte
}

var midRe = regexp.MustCompile(`message-id="([^"]*)"`)

// HelloDoc builds a compact server hello.
func HelloDoc(caps []string, sessionID string) string {
	var sb strings.Builder
	sb.WriteString(`<hello xmlns="` + NSBase + `"><capabilities>`)
	for _, c := range caps {
		sb.WriteString("<capability>" + c + "</capability>")
	}
	sb.WriteString("</capabilities>")
	if sessionID != "" {
		sb.WriteString("<session-id>" + sessionID + "</session-id>")
	}
	sb.WriteString("</hello>")
	return sb.String()
}

// OKReply is the default reply payload.
func OKReply(id string) string {
	return `<rpc-reply xmlns="` + NSBase + `" message-id="` + id + `"><ok/></rpc-reply>`
}

// State implements the optional state label.
func (s *NCServer) State() string { return "nc" + s.Version }

// Connect implements Device.
func (s *NCServer) Connect() []byte {
	out := []byte(s.Banner)
	if s.Hello != "" {
		out = append(out, s.Hello...)
		if !s.NoHelloDelim {
			out = append(out, Delim10...)
		}
		out = append(out, s.HelloTrail...)
	}
	s.outOff += len(out)
	s.Ends = append(s.Ends, s.outOff)
	return out
}

// NextEnd returns the first message end strictly after stream offset off (or -1).
func (s *NCServer) NextEnd(off int) int {
	for _, e := range s.Ends {
		if e > off {
			return e
		}
	}
	return -1
}

// Frame frames a payload in the given version with the given chunk partition.
func Frame(version string, payload []byte, parts [][]byte) []byte {
	if version != "1.1" {
		return append(append([]byte{}, payload...), Delim10...)
	}
	if parts == nil {
		parts = [][]byte{payload}
	}
	var out []byte
	for _, p := range parts {
		out = append(out, "\n#"+strconv.Itoa(len(p))+"\n"...)
		out = append(out, p...)
	}
	return append(out, "\n##\n"...)
}

func (s *NCServer) frameReply(i int, payload string) []byte {
	v := s.Version
	if s.Force10 {
		v = "1.0"
	}
	var parts [][]byte
	if s.Chunks != nil && v == "1.1" {
		parts = s.Chunks(i, []byte(payload))
	}
	return Frame(v, []byte(payload), parts)
}

// Release emits the held reply of request i (late reply) through Out.
func (s *NCServer) Release(i int) bool {
	b, ok := s.held[i]
	if !ok {
		return false
	}
	delete(s.held, i)
	s.outOff += len(b)
	s.Ends = append(s.Ends, s.outOff)
	s.Out(b)
	return true
}

// lenientDechunk decodes a 1.1 message body leniently (used only to serve requests).
func lenientDechunk(b []byte) string {
	var out []byte
	for len(b) > 0 {
		i := bytes.IndexByte(b, '#')
		if i < 0 {
			break
		}
		b = b[i+1:]
		j := bytes.IndexByte(b, '\n')
		if j < 0 {
			break
		}
		n, err := strconv.Atoi(string(b[:j]))
		if err != nil || n < 0 || j+1+n > len(b) {
			break
		}
		out = append(out, b[j+1:j+1+n]...)
		b = b[j+1+n:]
	}
	return string(out)
}

// React implements Device.
func (s *NCServer) React(in []byte) []byte {
	var out []byte
	s.Received = append(s.Received, in...)
	if s.Echo {
		out = append(out, in...)
	}
	s.in = append(s.in, in...)
	for {
		if !s.helloDone {
			i := bytes.Index(s.in, []byte(Delim10))
			if i < 0 {
				break
			}
			s.ClientHello = string(s.in[:i])
			s.in = s.in[i+len(Delim10):]
			s.helloDone = true
			s.Version = "1.0"
			if strings.Contains(s.ClientHello, Cap11) && strings.Contains(s.Hello, Cap11) {
				s.Version = "1.1"
			}
			continue
		}
		var raw, payload string
		if s.Version == "1.0" {
			i := bytes.Index(s.in, []byte(Delim10))
			if i < 0 {
				break
			}
			raw = string(s.in[:i+len(Delim10)])
			payload = strings.TrimSpace(string(s.in[:i]))
			s.in = s.in[i+len(Delim10):]
		} else {
			i := bytes.Index(s.in, []byte("\n##\n"))
			if i < 0 {
				break
			}
			raw = string(s.in[:i+4])
			payload = lenientDechunk(s.in[:i])
			s.in = s.in[i+3:] // keep the final LF: it may start the next chunk header
		}
		req := NCReq{Raw: raw, Payload: payload}
		if m := midRe.FindStringSubmatch(payload); m != nil {
			req.ID = m[1]
		}
		idx := len(s.Requests)
		s.Requests = append(s.Requests, req)
		reply, b := OKReply(req.ID), ReplyNow
		if s.Behave != nil {
			reply, b = s.Behave(idx, req)
		}
		emit := func(list []int) {
			for _, k := range list {
				if hb, ok := s.held[k]; ok {
					delete(s.held, k)
					out = append(out, hb...)
					s.Ends = append(s.Ends, s.outOff+len(out))
				}
			}
		}
		emit(s.EmitBefore[idx])
		switch b {
		case ReplyNow:
			out = append(out, s.frameReply(idx, reply)...)
			s.Ends = append(s.Ends, s.outOff+len(out))
		case ReplyHeld:
			if s.held == nil {
				s.held = map[int][]byte{}
			}
			s.held[idx] = s.frameReply(idx, reply)
		}
		emit(s.EmitAfter[idx])
	}
	s.outOff += len(out)
	return out
}

// ---------------------------------------------------------------------------------------------
// strict decoders (independent references)

// StrictDecode11 decodes one RFC 6242 chunked message: (LF '#' size LF data)+ LF '##' LF, sizes
// [1-9][0-9]{0,9} as exact byte counts. b must be exactly one message.
func StrictDecode11(b []byte) ([]byte, error) {
	var out []byte
	pos := 0
	chunks := 0
	for {
		if pos+2 > len(b) || b[pos] != '\n' || b[pos+1] != '#' {
			return nil, fmt.Errorf("offset %d: expected LF '#'", pos)
		}
		pos += 2
		if pos < len(b) && b[pos] == '#' {
			if chunks == 0 {
				return nil, fmt.Errorf("offset %d: end-of-chunks before any chunk", pos)
			}
			if pos+2 != len(b) || b[pos+1] != '\n' {
				return nil, fmt.Errorf("offset %d: expected '##' LF at end", pos)
			}
			return out, nil
		}
		j := pos
		for j < len(b) && b[j] >= '0' && b[j] <= '9' {
			j++
		}
		if j == pos || j-pos > 10 || b[pos] == '0' || j >= len(b) || b[j] != '\n' {
			return nil, fmt.Errorf("offset %d: bad chunk size", pos)
		}
		n, _ := strconv.ParseUint(string(b[pos:j]), 10, 64)
		if n > 4294967295 {
			return nil, fmt.Errorf("offset %d: chunk size too large", pos)
		}
		pos = j + 1
		if pos+int(n) > len(b) {
			return nil, fmt.Errorf("offset %d: chunk of %d bytes exceeds data", pos, n)
		}
		out = append(out, b[pos:pos+int(n)]...)
		pos += int(n)
		chunks++
	}
}

// StrictStream decodes everything the server received after the client hello into messages.
// 1.0: payload ']]>]]>' (whitespace between messages tolerated: the client writes a return after
// each). 1.1: strict chunk streams; the LF that precedes each message's first header must be
// present (it is the return written after the previous message); a single trailing LF is allowed.
func StrictStream(version string, b []byte) (msgs [][]byte, err error) {
	if version == "1.0" {
		for {
			b = bytes.TrimLeft(b, "\n")
			if len(b) == 0 {
				return msgs, nil
			}
			i := bytes.Index(b, []byte(Delim10))
			if i < 0 {
				return msgs, fmt.Errorf("trailing bytes without delimiter: %q", b)
			}
			msgs = append(msgs, b[:i])
			b = b[i+len(Delim10):]
		}
	}
	for {
		if len(b) == 0 || (len(b) == 1 && b[0] == '\n') {
			return msgs, nil
		}
		i := bytes.Index(b, []byte("\n##\n"))
		if i < 0 {
			return msgs, fmt.Errorf("trailing bytes without end-of-chunks: %q", b)
		}
		m, err := StrictDecode11(b[:i+4])
		if err != nil {
			return msgs, fmt.Errorf("message %d: %w (raw %q)", len(msgs), err, b[:i+4])
		}
		msgs = append(msgs, m)
		b = b[i+4:]
	}
}

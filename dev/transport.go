// Package dev holds the causal device models that close the system under exploration: a fake
// transport.Implementation whose every read is an environment decision of the scheduler, a
// line-oriented CLI device and a NETCONF server.
package dev

import (
	"errors"
	"fmt"
	"io"
	"strconv"
	"syscall"
	"time"

	"github.com/scrapli/scrapligo/transport"

	"verif/sched"
)

// Device is the peer behind a FakeTransport. It reacts only to what is written to it.
type Device interface {
	Connect() []byte
	React(in []byte) []byte
}

// CloseMode says what a read that is blocked when Close is called does.
type CloseMode int

const (
	CloseEOF CloseMode = iota
	CloseEIO
	CloseStaysBlocked
	CloseEOFWithErr // the read unblocks with EOF and Close itself reports an error (e.g. the peer had reset the socket)
)

// LossKind says how the connection dies at LossAt.
type LossKind int

const (
	LossNone LossKind = iota
	LossEOF
	LossEIO        // every later read fails with EIO
	LossEIOThenEOF // one EIO, then EOF
)

// ErrEIO is the non-EOF read error injected.
var ErrEIO = fmt.Errorf("read /dev/ptmx: %w", syscall.EIO)

// ErrCloseFailed is what Close returns in CloseEOFWithErr mode.
var ErrCloseFailed = fmt.Errorf("close tcp 192.0.2.1:830: %w", syscall.ECONNRESET)

// ErrWrite is the injected write error.
var ErrWrite = fmt.Errorf("write: %w", syscall.EPIPE)

// ErrClosed is returned by operations on a closed fake transport.
var ErrClosed = errors.New("fake transport closed")

type readResp struct {
	b   []byte
	err error
}

type readReq struct {
	n     int
	reply chan readResp
	th    *sched.Thread
}

// WriteRec logs one Write.
type WriteRec struct {
	Step      int
	Data      []byte
	Delivered int    // bytes delivered to the client before this write
	State     string // device state label before the write (if the device exposes one)
	SentAfter int    // total bytes the device had emitted after reacting to this write
	Thread    int
}

// DeliveryRec logs one successful Read.
type DeliveryRec struct {
	Step int
	N    int
	End  int // total bytes delivered after it
}

// FakeTransport implements transport.Implementation under scheduler control.
type FakeTransport struct {
	E   *sched.Env
	Dev Device

	MaxChunk int                              // preset segmentation: at most this many bytes per read (0 = read size only)
	Cuts     bool                             // offer every shorter delivery as an alternative
	NoCut    func(pending []byte, k int) bool // true: delivering exactly k bytes is not allowed (mid escape sequence)
	NextEnd  func(off int) int                // when set: a read never crosses the next message end after stream offset off

	OwnBuf           bool // true: every Read returns a fresh slice (default: one buffer is reused for all reads)
	rbuf             []byte
	StallAt          int // -1: never; else the device goes silent once this many bytes were delivered
	LossAt           int // -1: never; else the connection is lost once this many bytes were delivered
	Loss             LossKind
	WriteErrAt       int                          // -1: never; else the i-th Write (0-based) and all later ones fail
	FailWriteOnce    func(idx int, b []byte) bool // when set: every write for which it returns true fails (and only those)
	FailWrite        func(b []byte) bool          // when set: the first write for which it returns true fails, and all later ones
	OnClose          CloseMode
	WriteOKAfterLoss bool          // writes after a read-side loss succeed silently (the peer is gone, the kernel buffers)
	LossTime         time.Duration // virtual time the first loss answer was delivered (-1: not yet)
	WriteFailTime    time.Duration
	OpenErr          error

	pending   []byte
	sent      int
	Delivered int
	req       *readReq
	closed    bool
	killed    bool
	lossFired int

	Writes     []WriteRec
	Deliveries []DeliveryRec
	Stream     []byte        // everything delivered
	AllOut     []byte        // everything the device has emitted
	LastAt     time.Duration // virtual time of the last delivery
	CloseCalls int
	OpenCalls  int
	ReadCalls  int
}

// NewFake returns a transport with no faults.
func NewFake(e *sched.Env, d Device) *FakeTransport {
	t := &FakeTransport{E: e, Dev: d, StallAt: -1, LossAt: -1, WriteErrAt: -1, LossTime: -1, WriteFailTime: -1}
	e.AddSource(t)
	return t
}

// Open implements transport.Implementation.
func (t *FakeTransport) Open(_ *transport.Args) error {
	t.OpenCalls++
	if t.OpenErr != nil {
		return t.OpenErr
	}
	c := t.Dev.Connect()
	t.pending = append(t.pending, c...)
	t.AllOut = append(t.AllOut, c...)
	t.sent += len(c)
	return nil
}

// Close implements transport.Implementation.
func (t *FakeTransport) Close() error {
	t.CloseCalls++
	t.closed = true
	if t.OnClose == CloseEOFWithErr {
		return ErrCloseFailed
	}
	return nil
}

// IsAlive implements transport.Implementation.
func (t *FakeTransport) IsAlive() bool { return !t.closed }

// Release lifts a stall (the device catches up).
func (t *FakeTransport) Release() { t.StallAt = -1 }

// Inject appends unsolicited device output.
func (t *FakeTransport) Inject(b []byte) {
	t.pending = append(t.pending, b...)
	t.AllOut = append(t.AllOut, b...)
	t.sent += len(b)
	t.E.Poke()
}

// Sent returns the total number of bytes the device has emitted so far.
func (t *FakeTransport) Sent() int { return t.sent }

// Pending returns the bytes produced by the device and not yet delivered.
func (t *FakeTransport) Pending() int { return len(t.pending) }

// Read implements transport.Implementation: it blocks until the scheduler picks a delivery.
func (t *FakeTransport) Read(n int) ([]byte, error) {
	t.ReadCalls++
	if t.killed {
		return nil, io.EOF
	}
	r := &readReq{n: n, reply: make(chan readResp), th: t.E.CallerThread()}
	t.req = r
	t.E.Poke()
	resp := <-r.reply
	if t.OwnBuf || len(resp.b) == 0 {
		return resp.b, resp.err
	}
	// like a transport that reads into one buffer of its own and hands out a window of it (nothing in
	// transport.Implementation forbids that): what was returned by the previous Read is overwritten now
	if cap(t.rbuf) < len(resp.b) {
		t.rbuf = make([]byte, len(resp.b), 2*len(resp.b))
	}
	for i := range t.rbuf[:cap(t.rbuf)] {
		t.rbuf[:cap(t.rbuf)][i] = '~'
	}
	t.rbuf = t.rbuf[:len(resp.b)]
	copy(t.rbuf, resp.b)
	return t.rbuf, resp.err
}

// Write implements transport.Implementation.
func (t *FakeTransport) Write(b []byte) error {
	t.E.Point("h.tr.write")
	if t.killed {
		return ErrClosed
	}
	idx := len(t.Writes)
	st := ""
	if s, ok := t.Dev.(interface{ State() string }); ok {
		st = s.State()
	}
	tid := -1
	if th := t.E.CallerThread(); th != nil {
		tid = th.ID
	}
	t.Writes = append(t.Writes, WriteRec{Step: t.E.Step(), Data: append([]byte(nil), b...), Delivered: t.Delivered, State: st, Thread: tid})
	if t.FailWriteOnce != nil && t.FailWriteOnce(idx, b) {
		return ErrWrite // a transient failure: only this write is lost
	}
	if t.FailWrite != nil && t.WriteErrAt < 0 && t.FailWrite(b) {
		t.WriteErrAt = idx // this write and every later one fail
	}
	if t.WriteErrAt >= 0 && idx >= t.WriteErrAt {
		if t.WriteFailTime < 0 {
			t.WriteFailTime = t.E.Now()
		}
		return ErrWrite
	}
	if t.closed {
		return ErrClosed
	}
	if t.lossFired > 0 {
		if t.WriteOKAfterLoss {
			return nil
		}
		return ErrWrite
	}
	out := t.Dev.React(b)
	t.pending = append(t.pending, out...)
	t.AllOut = append(t.AllOut, out...)
	t.sent += len(out)
	t.Writes[idx].SentAfter = t.sent
	return nil
}

func (t *FakeTransport) answer(b []byte, err error) {
	r := t.req
	t.req = nil
	if len(b) > 0 {
		t.Delivered += len(b)
		t.Stream = append(t.Stream, b...)
		t.Deliveries = append(t.Deliveries, DeliveryRec{Step: t.E.Step(), N: len(b), End: t.Delivered})
		t.LastAt = t.E.Now()
	}
	t.E.SetLast(r.th)
	r.reply <- readResp{b, err}
}

// Actions implements sched.EnvSource.
func (t *FakeTransport) Actions() []sched.EnvAction {
	if t.req == nil {
		return nil
	}
	if t.closed {
		switch t.OnClose {
		case CloseEOF, CloseEOFWithErr:
			return []sched.EnvAction{{Label: "rd:closed-eof", Do: func() { t.answer(nil, io.EOF) }}}
		case CloseEIO:
			return []sched.EnvAction{{Label: "rd:closed-eio", Do: func() { t.answer(nil, ErrEIO) }}}
		default:
			return nil
		}
	}
	avail := len(t.pending)
	if t.LossAt >= 0 && t.Loss != LossNone {
		if t.Delivered >= t.LossAt {
			switch {
			case t.Loss == LossEOF, t.Loss == LossEIOThenEOF && t.lossFired > 0:
				return []sched.EnvAction{{Label: "rd:loss-eof", Do: func() { t.markLoss(); t.answer(nil, io.EOF) }}}
			default:
				return []sched.EnvAction{{Label: "rd:loss-eio", Do: func() { t.markLoss(); t.answer(nil, ErrEIO) }}}
			}
		}
		if t.Delivered+avail > t.LossAt {
			avail = t.LossAt - t.Delivered
		}
	}
	if t.StallAt >= 0 && t.Delivered+avail > t.StallAt {
		avail = t.StallAt - t.Delivered
	}
	if avail <= 0 {
		return nil
	}
	def := avail
	if t.req.n > 0 && def > t.req.n {
		def = t.req.n
	}
	if t.MaxChunk > 0 && def > t.MaxChunk {
		def = t.MaxChunk
	}
	if t.NextEnd != nil {
		if end := t.NextEnd(t.Delivered); end > 0 && t.Delivered+def > end {
			def = end - t.Delivered
		}
	}
	if t.NoCut != nil && def < len(t.pending) && t.NoCut(t.pending, def) {
		// the preset boundary is not allowed here: move it forward (byte-wise presets) or back
		d := def
		for d < avail && d < len(t.pending) && t.NoCut(t.pending, d) {
			d++
		}
		if d < len(t.pending) && t.NoCut(t.pending, d) {
			d = def
			for d > 1 && t.NoCut(t.pending, d) {
				d--
			}
		}
		def = d
	}
	mk := func(k int) sched.EnvAction {
		return sched.EnvAction{Label: "rd:" + strconv.Itoa(k), Do: func() {
			b := append([]byte(nil), t.pending[:k]...)
			t.pending = t.pending[k:]
			t.answer(b, nil)
		}}
	}
	acts := []sched.EnvAction{mk(def)}
	if t.Cuts {
		for k := 1; k < def; k++ {
			if t.NoCut != nil && t.NoCut(t.pending, k) {
				continue
			}
			acts = append(acts, mk(k))
		}
	}
	return acts
}

func (t *FakeTransport) markLoss() {
	t.lossFired++
	if t.LossTime < 0 {
		t.LossTime = t.E.Now()
	}
}

// Kill ends the execution: a blocked read returns EOF, later calls fail.
func (t *FakeTransport) Kill() {
	t.killed = true
	if t.req != nil {
		r := t.req
		t.req = nil
		select {
		case r.reply <- readResp{nil, io.EOF}:
		default:
		}
	}
}

// FakeTelnet is a FakeTransport that asks for in-channel telnet login.
type FakeTelnet struct{ *FakeTransport }

// GetInChannelAuthType implements transport.InChannelAuthImplementation.
func (FakeTelnet) GetInChannelAuthType() transport.InChannelAuthType {
	return transport.InChannelAuthTelnet
}

// FakeSSH is a FakeTransport that asks for in-channel ssh login (like the system transport).
type FakeSSH struct {
	*FakeTransport
	Args *transport.SSHArgs
}

// GetInChannelAuthType implements transport.InChannelAuthImplementation.
func (FakeSSH) GetInChannelAuthType() transport.InChannelAuthType { return transport.InChannelAuthSSH }

// GetSSHArgs implements transport.SSHImplementation.
func (f FakeSSH) GetSSHArgs() *transport.SSHArgs {
	if f.Args == nil {
		return &transport.SSHArgs{}
	}
	return f.Args
}

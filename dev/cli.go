package dev

import (
	"bytes"
	"strings"
)

// LineRec is one complete input line as the device received it.
type LineRec struct {
	Seq   int
	Mode  string
	Line  string
	Wrong bool
}

// Reply is what a mode answers to one input line.
type Reply struct {
	Out  string // output, without the leading newline and without the prompt
	Next string // next mode ("" = stay)
	// Raw, when set, is emitted verbatim after the newline instead of Out + prompt
	// (used for password prompts, dialogues that end without a prompt, ...).
	Raw   *string
	Wrong bool // the line is not acceptable in this mode (logged)
}

// Mode is one state of the CLI device.
type Mode struct {
	Name   string
	Prompt string
	NoEcho bool // input typed in this mode is not echoed (password entry)
	// OnLine computes the reply to a complete line. nil: every line gets an empty output.
	OnLine func(d *CLIDevice, line string) Reply
}

// CLIDevice is a causal, line-oriented device: it echoes input as it arrives and answers a line
// when its return arrives.
type CLIDevice struct {
	Modes     map[string]*Mode
	Cur       string
	Banner    string // sent at connect, before the first prompt
	NoFirst   bool   // do not print a prompt at connect (login front-ends print their own)
	CRLF      bool   // newlines go out as CR LF
	Wrap      string // when non-empty, inserted into the echo after every WrapEvery bytes
	WrapEvery int
	Return    byte // the byte that ends a line (default '\n')

	line   []byte
	echoed int
	Lines  []LineRec
	seq    int
	Sent   []byte // everything the device has emitted
}

// NewCLI returns a device with the given modes, starting in start.
func NewCLI(start string, modes ...*Mode) *CLIDevice {
	d := &CLIDevice{Modes: map[string]*Mode{}, Cur: start, Return: '\n'}
	for _, m := range modes {
		d.Modes[m.Name] = m
	}
	return d
}

// State implements the optional state label used in write logs.
func (d *CLIDevice) State() string { return d.Cur }

func (d *CLIDevice) nl(s string) []byte {
	if d.CRLF {
		return []byte(strings.ReplaceAll(s, "\n", "\r\n"))
	}
	return []byte(s)
}

// Connect implements Device.
func (d *CLIDevice) Connect() []byte {
	var out []byte
	out = append(out, d.nl(d.Banner)...)
	if !d.NoFirst {
		out = append(out, d.nl(d.Modes[d.Cur].Prompt)...)
	}
	d.Sent = append(d.Sent, out...)
	return out
}

// React implements Device.
func (d *CLIDevice) React(in []byte) []byte {
	var out []byte
	for _, c := range in {
		m := d.Modes[d.Cur]
		if c != d.Return {
			d.line = append(d.line, c)
			if !m.NoEcho {
				out = append(out, c)
				d.echoed++
				if d.Wrap != "" && d.WrapEvery > 0 && d.echoed%d.WrapEvery == 0 {
					out = append(out, d.Wrap...)
				}
			}
			continue
		}
		line := string(d.line)
		d.line = d.line[:0]
		d.echoed = 0
		var r Reply
		if m.OnLine != nil {
			r = m.OnLine(d, line)
		}
		d.seq++
		d.Lines = append(d.Lines, LineRec{Seq: d.seq, Mode: m.Name, Line: line, Wrong: r.Wrong})
		if r.Next != "" {
			d.Cur = r.Next
		}
		out = append(out, d.nl("\n")...)
		if r.Raw != nil {
			out = append(out, d.nl(*r.Raw)...)
			continue
		}
		if r.Out != "" {
			out = append(out, d.nl(r.Out)...)
			if !strings.HasSuffix(r.Out, "\n") {
				out = append(out, d.nl("\n")...)
			}
		}
		out = append(out, d.nl(d.Modes[d.Cur].Prompt)...)
	}
	d.Sent = append(d.Sent, out...)
	return out
}

// PendingLine returns the bytes of an input line that has not been ended by a return yet.
func (d *CLIDevice) PendingLine() string { return string(d.line) }

// NonEmptyLines returns the non-empty lines received, in order.
func (d *CLIDevice) NonEmptyLines() []string {
	var out []string
	for _, l := range d.Lines {
		if l.Line != "" {
			out = append(out, l.Line)
		}
	}
	return out
}

// Table builds an OnLine function from a command table; unknown non-empty lines are Wrong and get
// an error output.
func Table(cmds map[string]Reply) func(*CLIDevice, string) Reply {
	return func(_ *CLIDevice, line string) Reply {
		if line == "" {
			return Reply{}
		}
		if r, ok := cmds[line]; ok {
			return r
		}
		return Reply{Out: "% Invalid input detected", Wrong: true}
	}
}

// InEscape reports whether cutting buf after k bytes would split an ANSI escape sequence.
func InEscape(buf []byte, k int) bool {
	i := bytes.LastIndexByte(buf[:k], 0x1b)
	if i < 0 {
		return false
	}
	// sequence: ESC [ params final(letter) — complete when a letter in @-~ follows the '['
	for j := i + 1; j < k; j++ {
		c := buf[j]
		if j == i+1 {
			if c != '[' {
				return false
			}
			continue
		}
		if c >= 0x40 && c <= 0x7e {
			return false
		}
	}
	return true
}
